#![no_std]
