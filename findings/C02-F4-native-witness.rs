use embedded_graphics_core::{draw_target::DrawTarget, geometry::Point, pixelcolor::Rgb565, prelude::RgbColor, Pixel};
use mipidsi::{interface::{Interface, InterfaceKind}, models::ST7789, Builder};

#[derive(Default)]
struct Rec { cmds: Vec<(u8, Vec<u8>)>, px: usize }
impl Interface for &mut Rec {
    type Word = u8;
    type Error = core::convert::Infallible;
    const KIND: InterfaceKind = InterfaceKind::Serial4Line;
    fn send_command(&mut self, command: u8, args: &[u8]) -> Result<(), Self::Error> { self.cmds.push((command, args.to_vec())); Ok(()) }
    fn send_pixels<const N: usize>(&mut self, pixels: impl IntoIterator<Item = [u8; N]>) -> Result<(), Self::Error> { self.px += pixels.into_iter().count(); Ok(()) }
    fn send_repeated_pixel<const N: usize>(&mut self, _pixel: [u8; N], count: u32) -> Result<(), Self::Error> { self.px += count as usize; Ok(()) }
}
struct NoDelay;
impl embedded_hal::delay::DelayNs for NoDelay { fn delay_ns(&mut self, _ns: u32) {} }

fn run(pixels: &[(i32, i32)]) -> (Vec<(u8, Vec<u8>)>, usize) {
    let mut rec = Rec::default();
    {
        let mut d = Builder::new(ST7789, &mut rec).init(&mut NoDelay).unwrap();   // 240 x 320
        let n0 = 0;
        let _ = n0;
        d.draw_iter(pixels.iter().map(|&(x, y)| Pixel(Point::new(x, y), Rgb565::RED))).unwrap();
    }
    // only the traffic after initialisation: find the last COLMOD/… simply report windows
    let w: Vec<_> = rec.cmds.iter().filter(|c| c.0 == 0x2A || c.0 == 0x2B).cloned().collect();
    (w, rec.px)
}

#[test]
fn x_beyond_width_is_discarded() {
    let (w, _) = run(&[(245, 10)]);
    assert!(w.is_empty(), "pixel (245,10) on a 240x320 panel opened a window: {:x?}", w);
}
#[test]
fn x_65536_plus_3_is_discarded() {
    let (w, _) = run(&[(65536 + 3, 5)]);
    assert!(w.is_empty(), "pixel (65539,5) was drawn at a truncated position: {:x?}", w);
}
#[test]
fn y_65535_rows_do_not_panic() {
    let _ = run(&[(0, 65535), (0, 7)]);
}
