use vstd::prelude::*;
use vstd::std_specs::iter::IteratorSpec;
use core::slice::ChunksExactMut;
verus! {
global size_of usize == 8;

#[verifier::external_type_specification]
#[verifier::external_body]
#[verifier::reject_recursive_types(T)]
pub struct ExChunksExactMut<'a, T: 'a>(ChunksExactMut<'a, T>);

pub assume_specification<'a, T> [<[T]>::chunks_exact_mut] (s: &'a mut [T], n: usize) -> (it: ChunksExactMut<'a, T>)
    requires n != 0
    ensures
        it.obeys_prophetic_iter_laws(),
        it.decrease() is Some,
        it.remaining().len() == old(s)@.len() / (n as nat),
        forall|i: int| 0 <= i < it.remaining().len() ==> (*#[trigger] it.remaining()[i])@ == old(s)@.subrange(i * n, i * n + n),
        final(s)@.len() == old(s)@.len(),
        forall|k: int| 0 <= k < old(s)@.len() ==> #[trigger] final(s)@[k] ==
            (if k < (old(s)@.len() / (n as nat)) * n { (*final(it.remaining()[k / (n as int)]))@[k % (n as int)] } else { old(s)@[k] }),
;
#[verifier::external_body]
pub fn slice_as_array_mut<'a, T, const N: usize>(s: &'a mut [T]) -> (r: &'a mut [T; N])
    requires old(s)@.len() == N
    ensures (*r)@ == old(s)@, final(s)@ == (*final(r))@
{ s.try_into().unwrap() }

#[verifier::external_body]
pub fn min_u32(a: u32, b: u32) -> (r: u32) ensures r == (if a <= b { a } else { b }) { core::cmp::min(a, b) }
pub struct SpiWrite { pub bytes: Seq<u8>, pub ok: bool }
pub trait Spi { 
    spec fn writes(&self) -> Seq<SpiWrite>;
    fn write(&mut self, buf: &[u8]) -> (r: Result<(), ()>)
        ensures final(self).writes() == old(self).writes().push(SpiWrite { bytes: buf@, ok: r is Ok });
}
pub struct SpiInterface<'a, SPI> { pub spi: SPI, pub buffer: &'a mut [u8] }

/// all bytes of the writes from position `from` on, concatenated
pub open spec fn written(w: Seq<SpiWrite>, from: int) -> Seq<u8>
    decreases w.len()
{
    if w.len() <= from || w.len() == 0 { Seq::empty() } else { written(w.drop_last(), from) + w.last().bytes }
}
pub proof fn lemma_written_push(w: Seq<SpiWrite>, from: int, x: SpiWrite)
    requires 0 <= from <= w.len()
    ensures written(w.push(x), from) == written(w, from) + x.bytes
{
    assert(w.push(x).drop_last() == w);
}
pub proof fn lemma_rep_add<const N: usize>(pixel: [u8; N], a: int, b: int)
    requires a >= 0, b >= 0, N > 0
    ensures rep(pixel, a) + rep(pixel, b) == rep(pixel, a + b)
{
    assert(a * N + b * N == (a + b) * N) by(nonlinear_arith);
    assert(a * N >= 0 && b * N >= 0) by(nonlinear_arith) requires a >= 0, b >= 0, N > 0;
    let l = rep(pixel, a) + rep(pixel, b);
    let r = rep(pixel, a + b);
    assert(l.len() == r.len());
    assert forall|k: int| 0 <= k < l.len() implies l[k] == r[k] by {
        if k >= a * N {
            vstd::arithmetic::div_mod::lemma_mod_multiples_vanish(a, k - a * N, N as int);
            assert((k - a * N) + a * N == k);
            assert(N as int * a == a * N) by(nonlinear_arith);
        }
    }
    assert(l =~= r);
}
pub open spec fn all_ok(w: Seq<SpiWrite>, from: int) -> bool { forall|i: int| from <= i < w.len() ==> (#[trigger] w[i]).ok }
/// `cnt` copies of pixel
pub open spec fn rep<const N: usize>(pixel: [u8; N], cnt: int) -> Seq<u8> {
    Seq::new((cnt * N) as nat, |k: int| pixel@[k % (N as int)])
}

/// pixel arrays flattened into the byte stream, in order
pub open spec fn flat<const N: usize>(s: Seq<[u8; N]>) -> Seq<u8> {
    Seq::new((s.len() * N) as nat, |k: int| s[k / (N as int)]@[k % (N as int)])
}
pub proof fn lemma_flat_add<const N: usize>(a: Seq<[u8; N]>, b: Seq<[u8; N]>)
    requires N > 0
    ensures flat(a) + flat(b) == flat(a + b)
{
    assert(a.len() * N + b.len() * N == (a.len() + b.len()) * N) by(nonlinear_arith);
    let l = flat(a) + flat(b);
    let r = flat(a + b);
    assert(l.len() == r.len());
    assert forall|k: int| 0 <= k < l.len() implies l[k] == r[k] by {
        let n = N as int;
        let al = a.len() as int;
        if k < al * n {
            assert(k / n < al) by(nonlinear_arith) requires 0 <= k < al * n, n > 0;
        } else {
            let k2 = k - al * n;
            vstd::arithmetic::div_mod::lemma_mod_multiples_vanish(al, k2, n);
            assert(k2 + al * n == k);
            assert(n * al == al * n) by(nonlinear_arith);
            vstd::arithmetic::div_mod::lemma_div_multiples_vanish_quotient(n, k, n);
            assert(k / n == al + k2 / n) by {
                vstd::arithmetic::div_mod::lemma_fundamental_div_mod(k2, n);
                vstd::arithmetic::div_mod::lemma_fundamental_div_mod(k, n);
                vstd::arithmetic::div_mod::lemma_div_plus_one(k2, n);
                assert(k == n * (al + k2 / n) + k2 % n) by(nonlinear_arith) requires k == k2 + al * n, k2 == n * (k2 / n) + k2 % n;
                vstd::arithmetic::div_mod::lemma_fundamental_div_mod_converse(k, n, al + k2 / n, k2 % n);
            }
            assert(0 <= k2 / n < b.len()) by(nonlinear_arith) requires 0 <= k2 < b.len() * n, n > 0;
        }
    }
    assert(l =~= r);
}

pub proof fn lemma_skip_step<T>(s: Seq<T>, a: int)
    requires 0 <= a < s.len()
    ensures s.skip(a).drop_first() == s.skip(a + 1), s.skip(a)[0] == s[a], s.skip(a).len() == s.len() - a
{
    assert(s.skip(a).drop_first() =~= s.skip(a + 1));
}
impl<'a, SPI: Spi> SpiInterface<'a, SPI> {
    fn send_pixels<const N: usize, I: Iterator<Item = [u8; N]>>(&mut self, pixels: I) -> (r: Result<(), ()>)
        requires N > 0, old(self).buffer@.len() >= N, pixels.obeys_prophetic_iter_laws(), pixels.decrease() is Some,
        ensures
            final(self).buffer@.len() == old(self).buffer@.len(),
            r is Ok ==> all_ok(final(self).spi.writes(), old(self).spi.writes().len() as int)
                && written(final(self).spi.writes(), old(self).spi.writes().len() as int) == flat(pixels.remaining()),
    {
        let mut arrays = pixels;
        let ghost rem0 = arrays.remaining();
        let ghost w0 = self.spi.writes();
        let _l = self.buffer.len();
        assert(_l >= N);
        let mut done = false;
        proof { assert(rem0.take(0).len() * N == 0) by(nonlinear_arith) requires rem0.take(0).len() == 0; assert(flat(rem0.take(0)) =~= Seq::<u8>::empty()); }
        while !done
            invariant
                N > 0, self.buffer@.len() == old(self).buffer@.len(), self.buffer@.len() >= N, self.buffer@.len() <= usize::MAX,
                arrays.obeys_prophetic_iter_laws(), arrays.decrease() is Some,
                arrays.remaining().len() <= rem0.len(),
                arrays.remaining() == rem0.skip(rem0.len() - arrays.remaining().len()),
                done ==> arrays.remaining().len() == 0,
                w0.len() <= self.spi.writes().len(),
                all_ok(self.spi.writes(), w0.len() as int),
                written(self.spi.writes(), w0.len() as int) == flat(rem0.take(rem0.len() - arrays.remaining().len())),
            decreases (if done { 0int } else { arrays.decrease()->Some_0 as int + 1 }),
        {
            let mut i: usize = 0;
            let ghost c0 = rem0.len() - arrays.remaining().len();
            let ghost blen = self.buffer@.len() as int;
            let ghost d0 = arrays.decrease()->Some_0;
            let ghost wb = self.spi.writes();
            let ghost mut k: int = 0;
            {
                let mut it = self.buffer.chunks_exact_mut(N);
                let ghost crem0 = it.remaining();
                let ghost total = crem0.len() as int;
                proof {
                    assert(total >= 1 && total * N <= blen) by(nonlinear_arith) requires total == blen / N as int, blen >= N, N > 0;
                    assert forall|j: int| 0 <= j < total implies (*#[trigger] crem0[j])@.len() == N by {
                        assert(j * N + N <= total * N) by(nonlinear_arith) requires 0 <= j < total, N > 0;
                    }
                }
                loop
                    invariant_except_break
                        !done,
                        k == total - it.remaining().len(),
                        arrays.decrease()->Some_0 <= d0,
                        k >= 1 ==> arrays.decrease()->Some_0 < d0,
                    invariant
                        N > 0, total >= 1, total * N <= blen, total == crem0.len(),
                        it.obeys_prophetic_iter_laws(), it.decrease() is Some,
                        arrays.obeys_prophetic_iter_laws(), arrays.decrease() is Some,
                        it.remaining().len() <= total,
                        it.remaining() == crem0.skip(total - it.remaining().len()),
                        forall|j: int| 0 <= j < total ==> (*#[trigger] crem0[j])@.len() == N,
                        0 <= k <= total, i == k * N, c0 >= 0, blen <= usize::MAX,
                        c0 + k <= rem0.len(),
                        arrays.remaining() == rem0.skip(c0 + k),
                        forall|j: int| 0 <= j < k ==> (*final(#[trigger] crem0[j]))@ == rem0[c0 + j]@,
                    ensures
                        (done && arrays.remaining().len() == 0) || (!done && k == total && arrays.decrease()->Some_0 < d0),
                    decreases it.decrease()->Some_0,
                {
                    let ghost ar0 = arrays.remaining();
                    proof {
                        assert(ar0 == rem0.skip(c0 + k));
                        assert(0 <= c0 + k <= rem0.len());
                        assert(rem0.skip(c0 + k).len() == rem0.len() - (c0 + k));
                    }
                    match it.next() {
                        Some(chunk) => {
                            if let Some(array) = arrays.next() {
                                let chunk: &mut [u8; N] = slice_as_array_mut(chunk);
                                *chunk = array;
                                proof {
                                    assert(ar0.len() > 0);
                                    assert(ar0.len() == rem0.len() - (c0 + k));
                                    lemma_skip_step(rem0, c0 + k);
                                    assert((k + 1) * N == k * N + N) by(nonlinear_arith);
                                    assert((k + 1) * N <= total * N) by(nonlinear_arith) requires k + 1 <= total, N > 0;
                                    assert(i + N <= blen);
                                }
                                i += N;
                                proof { k = k + 1; }
                            } else {
                                done = true;
                                break;
                            };
                        }
                        None => { break; }
                    }
                }
                proof {
                    assert(self.buffer@.len() == blen);
                    assert(k * N <= total * N) by(nonlinear_arith) requires k <= total, N > 0;
                    assert forall|x: int| 0 <= x < k * N implies #[trigger] self.buffer@[x] == rem0[c0 + x / (N as int)]@[x % (N as int)] by {
                        let j = x / (N as int);
                        assert(0 <= j < k) by(nonlinear_arith) requires 0 <= x < k * N, N > 0, j == x / (N as int);
                        assert(x < total * N);
                        assert((*final(crem0[j]))@ == rem0[c0 + j]@);
                    }
                    let fl = flat(rem0.subrange(c0, c0 + k));
                    assert(fl.len() == k * N);
                    assert forall|x: int| 0 <= x < k * N implies self.buffer@.subrange(0, i as int)[x] == fl[x] by {
                        let j = x / (N as int);
                        assert(0 <= j < k) by(nonlinear_arith) requires 0 <= x < k * N, N > 0, j == x / (N as int);
                    }
                    assert(self.buffer@.subrange(0, i as int) =~= fl);
                }
            }
            match self.spi.write(&self.buffer[..i]) { Ok(v) => v, Err(e) => return Err(e) };
            proof {
                lemma_written_push(wb, w0.len() as int, SpiWrite { bytes: self.buffer@.subrange(0, i as int), ok: true });
                lemma_flat_add(rem0.take(c0), rem0.subrange(c0, c0 + k));
                assert(rem0.take(c0) + rem0.subrange(c0, c0 + k) =~= rem0.take(c0 + k));
            }
        }
        proof { assert(rem0.take(rem0.len() as int) =~= rem0); }
        Ok(())
    }

    fn send_repeated_pixel<const N: usize>(&mut self, pixel: [u8; N], count: u32) -> (r: Result<(), ()>)
        requires N > 0, old(self).buffer@.len() >= N, old(self).buffer@.len() / (N as nat) <= 0xffff_ffff,
        ensures
            final(self).buffer@.len() == old(self).buffer@.len(),
            r is Ok ==> all_ok(final(self).spi.writes(), old(self).spi.writes().len() as int)
                && written(final(self).spi.writes(), old(self).spi.writes().len() as int) == rep(pixel, count as int),
    {
        if count == 0 { return Ok(()); }
        let fill_count = min_u32(count, (self.buffer.len() / N) as u32);
        proof {
            let q = (self.buffer@.len() / (N as nat)) as int;
            assert(q >= 1 && q * N <= self.buffer@.len()) by(nonlinear_arith) requires q == self.buffer@.len() as int / N as int, self.buffer@.len() >= N, N > 0;
            assert(fill_count as int * N <= q * N) by(nonlinear_arith) requires fill_count <= q, N > 0;
        }
        let filled_len = fill_count as usize * N;
        proof { vstd::arithmetic::div_mod::lemma_mod_multiples_basic(fill_count as int, N as int); }
        let ghost w0 = self.spi.writes();
        {
            let mut it = self.buffer[..(filled_len)].chunks_exact_mut(N);
            let ghost rem0 = it.remaining();
            let ghost total = rem0.len() as int;
            proof {
                assert(filled_len as int == total * N) by(nonlinear_arith) requires total == filled_len as int / N as int, filled_len as int % N as int == 0, N > 0;
                assert forall|i: int| 0 <= i < total implies (*#[trigger] rem0[i])@.len() == N by {
                    assert(i * N + N <= total * N) by(nonlinear_arith) requires 0 <= i < total, N > 0;
                }
            }
            loop
                invariant
                    it.obeys_prophetic_iter_laws(), it.decrease() is Some, N > 0,
                    it.remaining().len() <= total, total == rem0.len(),
                    it.remaining() == rem0.skip(total - it.remaining().len()),
                    forall|i: int| 0 <= i < total ==> (*#[trigger] rem0[i])@.len() == N,
                    forall|i: int| 0 <= i < total - it.remaining().len() ==> (*final(#[trigger] rem0[i]))@ == pixel@,
                ensures it.remaining().len() == 0,
                decreases it.decrease()->Some_0,
            {
                match it.next() {
                    Some(chunk) => {
                        let chunk: &mut [u8; N] = slice_as_array_mut(chunk);
                        *chunk = pixel;
                    }
                    None => { break; }
                }
            }
            proof {
                assert(self.buffer@.len() == old(self).buffer@.len());
                let fl = filled_len as int;
                assert(fl == total * N);
                assert forall|k: int| 0 <= k < fl implies #[trigger] self.buffer@[k] == pixel@[k % (N as int)] by {
                    let i = k / (N as int);
                    assert(0 <= i < total) by(nonlinear_arith) requires 0 <= k < total * N, N > 0, i == k / (N as int);
                    assert((*final(rem0[i]))@ == pixel@);
                }
                assert(self.buffer@.subrange(0, fl) =~= rep(pixel, fill_count as int));
            }
        }
        let ghost count0 = count as int;
        let mut count = count;
        proof { assert(rep(pixel, 0) =~= Seq::<u8>::empty()); }
        while count >= fill_count
            invariant
                N > 0, fill_count > 0, filled_len == fill_count * N, filled_len <= self.buffer@.len(),
                self.buffer@.len() == old(self).buffer@.len(),
                self.buffer@.subrange(0, filled_len as int) == rep(pixel, fill_count as int),
                count <= count0, w0.len() <= self.spi.writes().len(),
                all_ok(self.spi.writes(), w0.len() as int),
                written(self.spi.writes(), w0.len() as int) == rep(pixel, count0 - count),
            decreases count
        {
            let ghost wb = self.spi.writes();
            match self.spi.write(&self.buffer[..filled_len]) { Ok(v) => v, Err(e) => return Err(e) };
            proof {
                lemma_written_push(wb, w0.len() as int, SpiWrite { bytes: self.buffer@.subrange(0, filled_len as int), ok: true });
                lemma_rep_add(pixel, count0 - count, fill_count as int);
            }
            count -= fill_count;
        }
        if count != 0 {
            let ghost wb = self.spi.writes();
            proof {
                assert(count as int * N <= filled_len) by(nonlinear_arith) requires count < fill_count, filled_len == fill_count * N, N > 0;
            }
            match self.spi.write(&self.buffer[..(count as usize * pixel.len())]) { Ok(v) => v, Err(e) => return Err(e) };
            proof {
                let m = count as int * N;
                lemma_written_push(wb, w0.len() as int, SpiWrite { bytes: self.buffer@.subrange(0, m), ok: true });
                assert(self.buffer@.subrange(0, m) =~= rep(pixel, count as int)) by {
                    assert(self.buffer@.subrange(0, m) =~= self.buffer@.subrange(0, filled_len as int).subrange(0, m));
                }
                lemma_rep_add(pixel, count0 - count, count as int);
            }
        }
        Ok(())
    }
}
}
fn main(){}
