//! C06 harnesses (child of `interface::spi`).
extern crate std;
#[allow(unused_imports)]
use std::{vec, vec::Vec};
use super::*;
#[allow(unused_imports)]
use embedded_hal::{digital::OutputPin, spi::SpiDevice};
#[allow(unused_imports)]
use crate::interface::{Interface, InterfaceKind};
use crate::vk_support::*;
use core::cell::Cell;
use embedded_hal::{digital, spi};

impl spi::Error for MockError {
    fn kind(&self) -> spi::ErrorKind { spi::ErrorKind::Other }
}

/// What an SPI display controller sees: every byte with the DC level at the time of the write.
pub struct Wire {
    pub clock: Clock,
    pub dc: Cell<Option<bool>>,
    pub bytes: Cell<[u8; 16]>,
    pub dcs: Cell<[bool; 16]>,
    pub n: Cell<usize>,
    pub writes: Cell<u32>,
    pub dc_sets: Cell<u32>,
}
impl Wire {
    pub fn new() -> Self {
        Wire { clock: Clock::new(), dc: Cell::new(None), bytes: Cell::new([0; 16]), dcs: Cell::new([false; 16]), n: Cell::new(0), writes: Cell::new(0), dc_sets: Cell::new(0) }
    }
}
pub struct WDc<'a>(pub &'a Wire);
impl digital::ErrorType for WDc<'_> { type Error = MockError; }
impl OutputPin for WDc<'_> {
    fn set_low(&mut self) -> Result<(), MockError> { self.0.clock.op()?; self.0.dc.set(Some(false)); self.0.dc_sets.set(self.0.dc_sets.get() + 1); Ok(()) }
    fn set_high(&mut self) -> Result<(), MockError> { self.0.clock.op()?; self.0.dc.set(Some(true)); self.0.dc_sets.set(self.0.dc_sets.get() + 1); Ok(()) }
}
pub struct WSpi<'a>(pub &'a Wire);
impl spi::ErrorType for WSpi<'_> { type Error = MockError; }
impl SpiDevice for WSpi<'_> {
    fn transaction(&mut self, _ops: &mut [spi::Operation<'_, u8>]) -> Result<(), MockError> { unreachable!() }
    fn write(&mut self, buf: &[u8]) -> Result<(), MockError> {
        self.0.clock.op()?;
        self.0.writes.set(self.0.writes.get() + 1);
        let mut b = self.0.bytes.get();
        let mut d = self.0.dcs.get();
        let mut n = self.0.n.get();
        let mut i = 0;
        while i < buf.len() {
            if n < 16 {
                b[n] = buf[i];
                d[n] = self.0.dc.get() == Some(true);
            }
            n += 1;
            i += 1;
        }
        self.0.bytes.set(b);
        self.0.dcs.set(d);
        self.0.n.set(n);
        Ok(())
    }
}

/// straight-line unit interleaving (complete): DC low, instruction byte, DC high, parameter bytes; error variants
#[kani::proof]
#[kani::unwind(6)]
fn c06_send_command_order_and_faults() {
    let w = Wire::new();
    let mut buf = [0u8; 4];
    let mut di = SpiInterface::new(WSpi(&w), WDc(&w), &mut buf);
    let k: u32 = kani::any();
    w.clock.fail_at.set(k);
    let cmd: u8 = kani::any();
    let args: [u8; 4] = kani::any();
    let n: usize = kani::any();
    kani::assume(n <= 4);
    let r = di.send_command(cmd, &args[..n]);
    match r {
        Ok(()) => {
            kani::assert(w.n.get() == n + 1 && w.writes.get() == 2 && w.dc_sets.get() == 2, "C06: one instruction write and one parameter write");
            let (b, d) = (w.bytes.get(), w.dcs.get());
            kani::assert(b[0] == cmd && !d[0], "C06: instruction byte with DC low");
            let i: usize = kani::any();
            kani::assume(i < n);
            kani::assert(b[i + 1] == args[i] && d[i + 1], "C06: parameter bytes in order with DC high");
            kani::assert(w.dc.get() == Some(true), "C06: DC left high");
            kani::assert(w.clock.ops.get() <= k, "C12: failing operation swallowed");
        }
        Err(e) => {
            kani::assert(w.clock.ops.get() == k + 1, "C12: operation issued after the failing one");
            match e {
                SpiError::Dc(_) => kani::assert(k == 0 || k == 2, "C12: Dc error not caused by the data/command pin"),
                SpiError::Spi(_) => kani::assert(k == 1 || k == 3, "C12: Spi error not caused by the SPI device"),
            }
        }
    }
    kani::cover!(r.is_ok() && n == 4);
    kani::cover!(matches!(r, Err(SpiError::Dc(_))));
}

/// repeat count 0 must return at once without traffic (termination; `unwind` failure here means non-termination)
#[kani::proof]
#[kani::unwind(8)]
fn c06_repeat_zero_terminates() {
    let w = Wire::new();
    let mut buf = [0u8; 5];
    let mut di = SpiInterface::new(WSpi(&w), WDc(&w), &mut buf);
    let px: [u8; 2] = kani::any();
    assert!(di.send_repeated_pixel(px, 0).is_ok());
    kani::assert(w.n.get() == 0, "C06: bytes sent for a repeat count of zero");
}

/// bounded stand-in: buffer lengths 2..=5, N = 2, count <= 5: exact bytes, DC untouched, transaction bound
#[kani::proof]
#[kani::unwind(8)]
fn c06_repeated_pixel_bounded() {
    let w = Wire::new();
    w.dc.set(Some(true));
    let mut store = [0xEEu8; 5];
    let len: usize = kani::any();
    kani::assume(len >= 2 && len <= 5);
    let mut di = SpiInterface::new(WSpi(&w), WDc(&w), &mut store[..len]);
    let px: [u8; 2] = kani::any();
    let count: u32 = kani::any();
    kani::assume(count >= 1 && count <= 5);
    assert!(di.send_repeated_pixel(px, count).is_ok());
    kani::assert(w.n.get() == 2 * count as usize, "C06: byte count of a repeated pixel");
    let b = w.bytes.get();
    let i: usize = kani::any();
    kani::assume(i < 2 * count as usize);
    kani::assert(b[i] == px[i % 2], "C06: repeated pixel bytes");
    kani::assert(w.dc_sets.get() == 0, "C06: DC touched while sending pixels");
    let usable = (len / 2) * 2;
    kani::assert(w.writes.get() as usize <= (2 * count as usize) / usable + 1, "C20: more bus transactions than floor(b/usable)+1");
}

/// bounded stand-in: pixel stream of 0..=4 pixels, buffer lengths 2..=5
#[kani::proof]
#[kani::unwind(8)]
fn c06_send_pixels_bounded() {
    let w = Wire::new();
    w.dc.set(Some(true));
    let mut store = [0xEEu8; 5];
    let len: usize = kani::any();
    kani::assume(len >= 2 && len <= 5);
    let mut di = SpiInterface::new(WSpi(&w), WDc(&w), &mut store[..len]);
    let px: [[u8; 2]; 4] = kani::any();
    let n: usize = kani::any();
    kani::assume(n <= 4);
    assert!(di.send_pixels(px.into_iter().take(n)).is_ok());
    kani::assert(w.n.get() == 2 * n, "C06: byte count of a pixel stream");
    let b = w.bytes.get();
    let i: usize = kani::any();
    kani::assume(i < 2 * n);
    kani::assert(b[i] == px[i / 2][i % 2], "C06: pixel bytes in order, nothing stale");
    kani::assert(w.dc_sets.get() == 0, "C06: DC touched while sending pixels");
    let usable = (len / 2) * 2;
    kani::assert(w.writes.get() as usize <= (2 * n) / usable + 1, "C20: more bus transactions than floor(b/usable)+1");
}

/// a pixel stream of at most 2 pixels whose `size_hint` is legal but loose: the upper bound may exceed what it yields
pub struct Loose { pub px: [[u8; 2]; 2], pub n: usize, pub pos: usize, pub extra: usize }
impl Iterator for Loose {
    type Item = [u8; 2];
    fn next(&mut self) -> Option<[u8; 2]> {
        if self.pos < self.n { let v = self.px[self.pos]; self.pos += 1; Some(v) } else { None }
    }
    fn size_hint(&self) -> (usize, Option<usize>) { (0, Some(self.n - self.pos + self.extra)) }
}

/// light wire for the call-sequence harness: the bytes of the CURRENT call only (reset between calls), no DC tracking
pub struct Wire6 { pub clock: Clock, pub bytes: Cell<[u8; 6]>, pub n: Cell<usize>, pub writes: Cell<u32> }
pub struct W6Spi<'a>(pub &'a Wire6);
impl spi::ErrorType for W6Spi<'_> { type Error = MockError; }
impl SpiDevice for W6Spi<'_> {
    fn transaction(&mut self, _ops: &mut [spi::Operation<'_, u8>]) -> Result<(), MockError> { unreachable!() }
    fn write(&mut self, buf: &[u8]) -> Result<(), MockError> {
        self.0.clock.op()?;
        self.0.writes.set(self.0.writes.get() + 1);
        let mut b = self.0.bytes.get();
        let mut n = self.0.n.get();
        let mut i = 0;
        while i < buf.len() {
            if n < 6 { b[n] = buf[i]; }
            n += 1;
            i += 1;
        }
        self.0.bytes.set(b);
        self.0.n.set(n);
        Ok(())
    }
}
pub struct NoDc;
impl digital::ErrorType for NoDc { type Error = MockError; }
impl OutputPin for NoDc {
    fn set_low(&mut self) -> Result<(), MockError> { Ok(()) }
    fn set_high(&mut self) -> Result<(), MockError> { Ok(()) }
}

/// bounded stand-in for "any history of calls": three calls in a row on ONE interface (state carried between calls: the
/// shared buffer, anything a change adds) - a solid fill, then a fill or a pixel stream (which may hit one arbitrary
/// transport fault), then another fill; buffer 2..=5 bytes.  Every successful call puts exactly its own bytes on the wire -
/// nothing stale from an earlier call, nothing skipped - within the transaction bound.
#[kani::proof]
#[kani::unwind(8)]
fn c06_call_sequence_bounded() {
    let w = Wire6 { clock: Clock::new(), bytes: Cell::new([0; 6]), n: Cell::new(0), writes: Cell::new(0) };
    let mut store = [0xEEu8; 5];
    let len: usize = kani::any();
    kani::assume(len >= 2 && len <= 5);
    let mut di = SpiInterface::new(W6Spi(&w), NoDc, &mut store[..len]);
    let usable = (len / 2) * 2;
    let which: u8 = kani::any();
    // call 1: a fill
    let px1: [u8; 2] = kani::any();
    let c1: u32 = kani::any();
    kani::assume(c1 >= 1 && c1 <= 3);
    assert!(di.send_repeated_pixel(px1, c1).is_ok());
    // call 2: a fill or a stream, possibly failing
    w.n.set(0);
    w.writes.set(0);
    w.clock.fail_at.set(kani::any());
    if kani::any() {
        let px: [[u8; 2]; 2] = kani::any();
        let n: usize = kani::any();
        let extra: usize = kani::any();
        kani::assume(n <= 2 && extra <= 2);
        if di.send_pixels(Loose { px, n, pos: 0, extra }).is_ok() {
            let b = w.bytes.get();
            let i: usize = kani::any();
            kani::assume(i < 2 * n);
            if which == 0 { kani::assert(w.n.get() == 2 * n && b[i] == px[i / 2][i % 2], "C05: C06: bytes of a pixel stream that follows a fill"); }
            if which == 1 { kani::assert(w.writes.get() as usize <= (2 * n) / usable + 1, "C20: more bus transactions than floor(b/usable)+1 in a stream that follows a fill"); }
        }
    } else {
        let px2: [u8; 2] = kani::any();
        let c2: u32 = kani::any();
        kani::assume(c2 >= 1 && c2 <= 3);
        if di.send_repeated_pixel(px2, c2).is_ok() {
            let b = w.bytes.get();
            let i: usize = kani::any();
            kani::assume(i < 2 * c2 as usize);
            if which == 2 { kani::assert(w.n.get() == 2 * c2 as usize && b[i] == px2[i % 2], "C05: C06: bytes of a fill that follows a fill"); }
            if which == 3 { kani::assert(w.writes.get() as usize <= (2 * c2 as usize) / usable + 1, "C20: more bus transactions than floor(b/usable)+1 in a fill that follows a smaller fill"); }
        }
    }
    // call 3: another fill (same or different colour), fault-free
    w.n.set(0);
    w.writes.set(0);
    w.clock.fail_at.set(u32::MAX);
    let px3: [u8; 2] = if kani::any() { px1 } else { kani::any() };
    let c3: u32 = kani::any();
    kani::assume(c3 >= 1 && c3 <= 3);
    assert!(di.send_repeated_pixel(px3, c3).is_ok());
    let b = w.bytes.get();
    let i: usize = kani::any();
    kani::assume(i < 2 * c3 as usize);
    if which == 4 { kani::assert(w.n.get() == 2 * c3 as usize && b[i] == px3[i % 2], "C05: C06: bytes of a fill that follows other calls (stale buffer contents)"); }
    if which == 5 { kani::assert(w.writes.get() as usize <= (2 * c3 as usize) / usable + 1, "C20: more bus transactions than floor(b/usable)+1 in a fill that follows other calls"); }
    kani::cover!(px3 == px1 && c3 == 3 && len == 5);
}
