//! Builder::init harnesses: C09, C11, C13 (init part), C17, C12 (init faults).
//! Child of `builder`: can build `Builder { rst: None::<MockPin>, .. }` (inhabited stand-in for
//! `NoResetPin`, Kani 0.68 ICE on the uninhabited enum).
extern crate std;
#[allow(unused_imports)]
use std::{vec, vec::Vec};
use super::*;
use crate::models::*;
#[allow(unused_imports)]
use embedded_hal::{delay::DelayNs, digital::OutputPin};
#[allow(unused_imports)]
use crate::{dcs::InterfaceExt, interface::{Interface, InterfacePixelFormat}, models::{Model, ModelInitError}, options::{ColorInversion, ColorOrder, ModelOptions, Orientation, RefreshOrder}, Display};
use crate::vk_support::*;
use embedded_graphics_core::pixelcolor::{Rgb565, Rgb666};

pub trait ExpectColmod { const COLMOD: u8; }
impl ExpectColmod for Rgb565 { const COLMOD: u8 = 0x55; }
impl ExpectColmod for Rgb666 { const COLMOD: u8 = 0x66; }

/// One model/kind pairing through the real `Builder::init`, all options symbolic, with or without reset pin.
/// Assertion messages carry the id of the property they decide.
fn init_case<M: Model, const KIND: u8>(model: M, supported: bool)
where
    M::ColorFormat: crate::interface::InterfacePixelFormat<u8> + ExpectColmod,
{
    let clock = Clock::new();
    let options = any_valid_options(M::FRAMEBUFFER_SIZE.0, M::FRAMEBUFFER_SIZE.1);
    let want_madctl = oracle_madctl(options.color_order, options.orientation, options.refresh_order);
    let want_inv = options.invert_colors == ColorInversion::Inverted;
    let with_pin: bool = kani::any();
    let di: CtrlMock<KIND> = CtrlMock::new(&clock);
    let b = Builder { di, model, rst: if with_pin { Some(MockPin::new(&clock)) } else { None }, options };
    let mut delay = MockDelay(&clock);
    let r = b.init(&mut delay);
    match r {
        Ok(d) => {
            kani::assert(supported, "C11: an unsupported interface kind must be refused");
            let (di, _m, rst) = d.release();
            // ---- C17 reset comes first
            if with_pin {
                let p = rst.unwrap();
                kani::assert(p.first_low_op == Some(0), "C17: reset pin driven low first");
                kani::assert(p.sets == 2 && p.level == Some(true), "C17: exactly low then high, left high");
                kani::assert(p.high_ns >= p.low_ns + 10_000, "C17: reset low for at least 10 us");
                kani::assert(di.n_swreset == 0, "C17: no software reset when a reset pin is configured");
                kani::assert(di.first_cmd_op.unwrap() > p.last_high_op.unwrap(), "C17: nothing on the bus until the pin is high again");
            } else {
                kani::assert(di.first_cmd == Some((0x01, 0)) && di.first_cmd_op == Some(0), "C17: software reset is the first thing on the bus");
                kani::assert(di.n_swreset == 1, "C17: software reset sent exactly once");
            }
            // ---- C11 controller state
            kani::assert(!di.sleeping, "C11: controller awake after init");
            kani::assert(di.on, "C11: display switched on");
            kani::assert(di.madctl == Some(want_madctl), "C11: address mode equals the encoding of the options");
            kani::assert(di.colmod == Some(<M::ColorFormat as ExpectColmod>::COLMOD), "C05: C11: announced interface pixel format does not match the colour type");
            kani::assert(di.inverted == Some(want_inv), "C11: inversion as chosen");
            kani::assert(di.ramwr == 0 && di.px_calls == 0, "C11: no pixel memory written");
            kani::assert(clock.ns.get() >= di.t_slp_ns.unwrap() + 120_000_000, "C11: C13: init returned earlier than 120 ms after sleep-out");
            kani::assert(di.min_slp_gap_ns >= 120_000_000, "C13: sleep-in/out commands at least 120 ms apart");
        }
        Err(InitError::InvalidConfiguration(ConfigurationError::UnsupportedInterface)) => {
            kani::assert(!supported, "C11: a supported pairing must stay supported");
            // only the builder's own reset may have happened
        }
        Err(_) => {
            kani::assert(false, "C09: valid configuration rejected / C12: error without a fault");
        }
    }
    kani::cover!(with_pin);
    kani::cover!(!with_pin);
}

/// refusal happens before any model command (separate harness: needs the mock back, so init by reference)
fn refuse_case<M: Model, const KIND: u8>(mut model: M) {
    let clock = Clock::new();
    let options = any_valid_options(M::FRAMEBUFFER_SIZE.0, M::FRAMEBUFFER_SIZE.1);
    let mut di: CtrlMock<KIND> = CtrlMock::new(&clock);
    let mut delay = MockDelay(&clock);
    let r = model.init(&mut di, &mut delay, &options);
    kani::assert(matches!(r, Err(crate::models::ModelInitError::InvalidConfiguration(ConfigurationError::UnsupportedInterface))), "C11: refused with UnsupportedInterface");
    kani::assert(di.n_cmds == 0 && di.px_calls == 0 && clock.ops.get() == 0, "C11: refused before any model command");
}

macro_rules! init_harness {
    ($name:ident, $model:expr, $kind:literal, $sup:literal) => {
        #[kani::proof]
        fn $name() { init_case::<_, $kind>($model, $sup) }
    };
}
// kind: 0 = Serial4Line, 1 = Parallel8Bit, 2 = Parallel16Bit.  Support matrix of the unchanged tree (a pairing that
// loses support is a violation).
init_harness!(init_gc9107_k0, GC9107, 0, true);
init_harness!(init_gc9107_k1, GC9107, 1, true);
init_harness!(init_gc9107_k2, GC9107, 2, false);
init_harness!(init_gc9a01_k0, GC9A01, 0, true);
init_harness!(init_gc9a01_k1, GC9A01, 1, true);
init_harness!(init_gc9a01_k2, GC9A01, 2, true);
init_harness!(init_ili9341rgb565_k0, ILI9341Rgb565, 0, true);
init_harness!(init_ili9341rgb565_k1, ILI9341Rgb565, 1, true);
init_harness!(init_ili9341rgb565_k2, ILI9341Rgb565, 2, true);
init_harness!(init_ili9341rgb666_k0, ILI9341Rgb666, 0, true);
init_harness!(init_ili9341rgb666_k1, ILI9341Rgb666, 1, true);
init_harness!(init_ili9341rgb666_k2, ILI9341Rgb666, 2, true);
init_harness!(init_ili9342crgb565_k0, ILI9342CRgb565, 0, true);
init_harness!(init_ili9342crgb565_k1, ILI9342CRgb565, 1, true);
init_harness!(init_ili9342crgb565_k2, ILI9342CRgb565, 2, true);
init_harness!(init_ili9342crgb666_k0, ILI9342CRgb666, 0, true);
init_harness!(init_ili9342crgb666_k1, ILI9342CRgb666, 1, true);
init_harness!(init_ili9342crgb666_k2, ILI9342CRgb666, 2, true);
init_harness!(init_ili9486rgb565_k0, ILI9486Rgb565, 0, false);
init_harness!(init_ili9486rgb565_k1, ILI9486Rgb565, 1, true);
init_harness!(init_ili9486rgb565_k2, ILI9486Rgb565, 2, true);
init_harness!(init_ili9486rgb666_k0, ILI9486Rgb666, 0, true);
init_harness!(init_ili9486rgb666_k1, ILI9486Rgb666, 1, true);
init_harness!(init_ili9486rgb666_k2, ILI9486Rgb666, 2, true);
init_harness!(init_ili9488rgb565_k0, ILI9488Rgb565, 0, true);
init_harness!(init_ili9488rgb565_k1, ILI9488Rgb565, 1, true);
init_harness!(init_ili9488rgb565_k2, ILI9488Rgb565, 2, true);
init_harness!(init_ili9488rgb666_k0, ILI9488Rgb666, 0, true);
init_harness!(init_ili9488rgb666_k1, ILI9488Rgb666, 1, true);
init_harness!(init_ili9488rgb666_k2, ILI9488Rgb666, 2, true);
init_harness!(init_rm67162_k0, RM67162, 0, true);
init_harness!(init_rm67162_k1, RM67162, 1, true);
init_harness!(init_rm67162_k2, RM67162, 2, false);
init_harness!(init_st7735s_k0, ST7735s, 0, true);
init_harness!(init_st7735s_k1, ST7735s, 1, true);
init_harness!(init_st7735s_k2, ST7735s, 2, true);
init_harness!(init_st7789_k0, ST7789, 0, true);
init_harness!(init_st7789_k1, ST7789, 1, true);
init_harness!(init_st7789_k2, ST7789, 2, true);
init_harness!(init_st7796_k0, ST7796, 0, true);
init_harness!(init_st7796_k1, ST7796, 1, true);
init_harness!(init_st7796_k2, ST7796, 2, true);

#[kani::proof]
fn refuse_gc9107_k2() { refuse_case::<_, 2>(GC9107) }
#[kani::proof]
fn refuse_rm67162_k2() { refuse_case::<_, 2>(RM67162) }
#[kani::proof]
fn refuse_ili9486rgb565_k0() { refuse_case::<_, 0>(ILI9486Rgb565) }

// ---------------------------------------------------------------------------------------------- C09
/// all u16^4 (size, offset), with/without reset pin: accepted exactly when the window fits; the right error
/// otherwise; nothing touched on rejection.
fn c09_case<const W: u16, const H: u16>() {
    let clock = Clock::new();
    let (w, h, ox, oy): (u16, u16, u16, u16) = (kani::any(), kani::any(), kani::any(), kani::any());
    let mut options = ModelOptions::with_all((w, h), (ox, oy));
    options.orientation = any_orientation();
    let with_pin: bool = kani::any();
    let di: CtrlMock<0> = CtrlMock::new(&clock);
    let b = Builder { di, model: FbModel::<W, H>, rst: if with_pin { Some(MockPin::new(&clock)) } else { None }, options };
    let mut delay = MockDelay(&clock);
    let r = b.init(&mut delay);
    let (w, h, ox, oy) = (w as u64, h as u64, ox as u64, oy as u64);
    let size_ok = w >= 1 && h >= 1 && w <= W as u64 && h <= H as u64;
    let fits = size_ok && w + ox <= W as u64 && h + oy <= H as u64;
    match r {
        Ok(d) => {
            kani::assert(fits, "C09: accepted a window that does not fit");
            kani::assert(!d.is_sleeping(), "C13: not sleeping after init");
        }
        Err(InitError::InvalidConfiguration(ConfigurationError::InvalidDisplaySize)) => {
            kani::assert(!size_ok, "C09: InvalidDisplaySize for a valid size");
            kani::assert(clock.ops.get() == 0 && clock.ns.get() == 0, "C09: hardware touched before rejection");
        }
        Err(InitError::InvalidConfiguration(ConfigurationError::InvalidDisplayOffset)) => {
            kani::assert(size_ok && !fits, "C09: InvalidDisplayOffset but the size is the problem / the window fits");
            kani::assert(clock.ops.get() == 0 && clock.ns.get() == 0, "C09: hardware touched before rejection");
        }
        Err(_) => kani::assert(false, "C09: unexpected error for a fault-free bus"),
    }
    kani::cover!(fits && with_pin);
    kani::cover!(!size_ok);
    kani::cover!(size_ok && !fits);
}
#[kani::proof]
fn c09_init_1x1() { c09_case::<1, 1>() }
#[kani::proof]
fn c09_init_240x320() { c09_case::<240, 320>() }
#[kani::proof]
fn c09_init_320x240() { c09_case::<320, 240>() }
#[kani::proof]
fn c09_init_max() { c09_case::<65535, 65535>() }

// ------------------------------------------------------------------------- builder call order (C09 / C11 / C17)
/// the options `init` will see are the ones chosen, whatever the order of the builder calls: the six setters before or after
/// `reset_pin`, each changing exactly the option it names (complete: all option values, both orders; loop-free)
#[kani::proof]
fn c11_builder_call_order() {
    let clock = Clock::new();
    let o = ModelOptions::with_all((kani::any(), kani::any()), (kani::any(), kani::any()));
    let (co, or, inv, rf) = (any_color_order(), any_orientation(), any_inversion(), any_refresh());
    let di: CtrlMock<0> = CtrlMock::new(&clock);
    let b0 = Builder::new(ST7789, di);
    kani::assert(b0.options.display_size == (240, 320) && b0.options.display_offset == (0, 0), "C09: a new builder starts from the full framebuffer");
    let b = if kani::any() {
        b0.reset_pin(MockPin::new(&clock)).color_order(co).orientation(or).invert_colors(inv).refresh_order(rf)
            .display_size(o.display_size.0, o.display_size.1).display_offset(o.display_offset.0, o.display_offset.1)
    } else {
        b0.color_order(co).orientation(or).invert_colors(inv).refresh_order(rf)
            .display_size(o.display_size.0, o.display_size.1).display_offset(o.display_offset.0, o.display_offset.1).reset_pin(MockPin::new(&clock))
    };
    let which: u8 = kani::any();
    if which == 0 { kani::assert(b.options.color_order == co && b.options.orientation == or && b.options.invert_colors == inv && b.options.refresh_order == rf,
                                 "C11: C10: C14: an option chosen on the builder was lost or changed by a later builder call"); }
    if which == 1 { kani::assert(b.options.display_size == o.display_size && b.options.display_offset == o.display_offset,
                                 "C09: C11: size / offset chosen on the builder was lost or changed by a later builder call"); }
    if which == 2 { kani::assert(b.rst.is_some(), "C17: the reset pin given to the builder was dropped"); }
}

// ------------------------------------------------------------------------------------- C12 (init faults)
/// fail the k-th low-level operation (pin write or bus command) of init, k symbolic: error names its source,
/// nothing is issued after the failing operation, no panic.
fn c12_init_fault<M: Model, const KIND: u8>(model: M)
where
    M::ColorFormat: crate::interface::InterfacePixelFormat<u8>,
{
    let clock = Clock::new();
    let options = any_valid_options(M::FRAMEBUFFER_SIZE.0, M::FRAMEBUFFER_SIZE.1);
    let with_pin: bool = kani::any();
    let k: u32 = kani::any();
    clock.fail_at.set(k);
    let di: CtrlMock<KIND> = CtrlMock::new(&clock);
    let b = Builder { di, model, rst: if with_pin { Some(MockPin::new(&clock)) } else { None }, options };
    let mut delay = MockDelay(&clock);
    match b.init(&mut delay) {
        Ok(d) => {
            // (a failed kani::assert is also assumed afterwards: the nondeterministic choice keeps the checks independent)
            let which: u8 = kani::any();
            if which == 0 {
                kani::assert(clock.ops.get() <= k, "C12: a failing operation was swallowed");
            } else if which == 1 {
                kani::assert(!(with_pin && d.di.n_swreset > 0), "C17: software reset sent although a reset pin is configured");
            } else {
                kani::assert(with_pin || d.di.n_swreset == 1, "C17: without a reset pin exactly one software reset");
            }
        }
        Err(InitError::ResetPin(_)) => {
            kani::assert(with_pin && k < 2, "C12: ResetPin error not caused by the reset pin");
            kani::assert(clock.ops.get() == k + 1, "C12: operations issued after the failing one");
        }
        Err(InitError::Interface(_)) => {
            kani::assert(if with_pin { k >= 2 } else { true }, "C12: Interface error caused by the reset pin");
            kani::assert(clock.ops.get() == k + 1, "C12: operations issued after the failing one");
        }
        Err(InitError::InvalidConfiguration(_)) => kani::assert(false, "C12: configuration error for a valid configuration"),
    }
    kani::cover!(with_pin && k == 1);
    kani::cover!(k == 5);
}
macro_rules! fault_harness {
    ($name:ident, $model:expr, $kind:literal) => {
        #[kani::proof]
        fn $name() { c12_init_fault::<_, $kind>($model) }
    };
}
fault_harness!(c12_init_fault_gc9107, GC9107, 0);
fault_harness!(c12_init_fault_gc9a01, GC9A01, 0);
fault_harness!(c12_init_fault_ili9341rgb565, ILI9341Rgb565, 0);
fault_harness!(c12_init_fault_ili9341rgb666, ILI9341Rgb666, 1);
fault_harness!(c12_init_fault_ili9342crgb565, ILI9342CRgb565, 2);
fault_harness!(c12_init_fault_ili9342crgb666, ILI9342CRgb666, 0);
fault_harness!(c12_init_fault_ili9486rgb565, ILI9486Rgb565, 1);
fault_harness!(c12_init_fault_ili9486rgb666, ILI9486Rgb666, 0);
fault_harness!(c12_init_fault_ili9488rgb565, ILI9488Rgb565, 0);
fault_harness!(c12_init_fault_ili9488rgb666, ILI9488Rgb666, 2);
fault_harness!(c12_init_fault_rm67162, RM67162, 0);
fault_harness!(c12_init_fault_st7735s, ST7735s, 0);
fault_harness!(c12_init_fault_st7789, ST7789, 0);
fault_harness!(c12_init_fault_st7796, ST7796, 1);
