//! Harness support: recording mocks and executable twins of the oracles in contracts/prelude.rs.
//! Mounted as `crate::vk_support` in the scratch copy under cfg(kani).  These are harness *inputs*
//! (hal / Interface implementations handed to the real driver code), not models of the driver.
#![allow(dead_code, unused_imports)]
extern crate std;

use core::cell::Cell;
use embedded_graphics_core::pixelcolor::{Rgb565, Rgb666};
use embedded_hal::delay::DelayNs;
use embedded_hal::digital::{self, OutputPin};

use crate::dcs::SetAddressMode;
use crate::interface::{Interface, InterfaceKind};
use crate::models::{Model, ModelInitError};
use crate::options::{ColorInversion, ColorOrder, HorizontalRefreshOrder, ModelOptions, Orientation, RefreshOrder, Rotation, VerticalRefreshOrder};

// ------------------------------------------------------------------------------------ symbolic inputs
pub fn any_rotation() -> Rotation {
    match kani::any::<u8>() % 4 {
        0 => Rotation::Deg0,
        1 => Rotation::Deg90,
        2 => Rotation::Deg180,
        _ => Rotation::Deg270,
    }
}
pub fn any_orientation() -> Orientation {
    Orientation { rotation: any_rotation(), mirrored: kani::any() }
}
pub fn any_color_order() -> ColorOrder {
    if kani::any() { ColorOrder::Rgb } else { ColorOrder::Bgr }
}
pub fn any_inversion() -> ColorInversion {
    if kani::any() { ColorInversion::Normal } else { ColorInversion::Inverted }
}
pub fn any_refresh() -> RefreshOrder {
    RefreshOrder {
        vertical: if kani::any() { VerticalRefreshOrder::TopToBottom } else { VerticalRefreshOrder::BottomToTop },
        horizontal: if kani::any() { HorizontalRefreshOrder::LeftToRight } else { HorizontalRefreshOrder::RightToLeft },
    }
}
/// any options whose size/offset `Builder::init` accepts for a framebuffer (fw, fh)
pub fn any_valid_options(fw: u16, fh: u16) -> ModelOptions {
    let mut o = ModelOptions::with_all((kani::any(), kani::any()), (kani::any(), kani::any()));
    o.color_order = any_color_order();
    o.orientation = any_orientation();
    o.invert_colors = any_inversion();
    o.refresh_order = any_refresh();
    kani::assume(o.display_size.0 >= 1 && o.display_size.1 >= 1);
    kani::assume(o.display_size.0 as u32 + o.display_offset.0 as u32 <= fw as u32);
    kani::assume(o.display_size.1 as u32 + o.display_offset.1 as u32 <= fh as u32);
    o
}

// ------------------------------------------------------------------------------------ oracle twins
/// MIPI-DCS address-mode byte (twin of vf::spec_madctl)
pub fn oracle_mapping(o: Orientation) -> (bool, bool, bool) {
    let (my, mx) = match o.rotation {
        Rotation::Deg0 => (false, false),
        Rotation::Deg90 => (false, true),
        Rotation::Deg180 => (true, true),
        Rotation::Deg270 => (true, false),
    };
    (my, mx != o.mirrored, matches!(o.rotation, Rotation::Deg90 | Rotation::Deg270))
}
pub fn oracle_madctl(c: ColorOrder, o: Orientation, r: RefreshOrder) -> u8 {
    let (my, mx, mv) = oracle_mapping(o);
    (if my { 0x80 } else { 0 })
        | (if mx { 0x40 } else { 0 })
        | (if mv { 0x20 } else { 0 })
        | (if r.vertical == VerticalRefreshOrder::BottomToTop { 0x10 } else { 0 })
        | (if c == ColorOrder::Bgr { 0x08 } else { 0 })
        | (if r.horizontal == HorizontalRefreshOrder::RightToLeft { 0x04 } else { 0 })
}
/// twin of vf::panel_cell: rotate clockwise, then mirror left-right in the panel frame
pub fn oracle_panel_cell(o: Orientation, w: i64, h: i64, x: i64, y: i64) -> (i64, i64) {
    let p = match o.rotation {
        Rotation::Deg0 => (x, y),
        Rotation::Deg90 => (w - 1 - y, x),
        Rotation::Deg180 => (w - 1 - x, h - 1 - y),
        Rotation::Deg270 => (y, h - 1 - x),
    };
    if o.mirrored { (w - 1 - p.0, p.1) } else { p }
}
/// twin of vf::ctrl_phys: how the controller maps an address under MV/MX/MY
pub fn oracle_ctrl_phys(madctl: u8, fw: i64, fh: i64, c: i64, r: i64) -> (i64, i64) {
    let (my, mx, mv) = (madctl & 0x80 != 0, madctl & 0x40 != 0, madctl & 0x20 != 0);
    let p = if mv { (r, c) } else { (c, r) };
    (if mx { fw - 1 - p.0 } else { p.0 }, if my { fh - 1 - p.1 } else { p.1 })
}
pub fn oracle_logical_size(o: Orientation, w: u16, h: u16) -> (u16, u16) {
    if matches!(o.rotation, Rotation::Deg90 | Rotation::Deg270) { (h, w) } else { (w, h) }
}
pub fn be(x: u16) -> [u8; 2] {
    [(x >> 8) as u8, (x & 0xff) as u8]
}

// ------------------------------------------------------------------------------------------- mocks
#[derive(Debug, Clone, Copy, PartialEq, Eq)]
pub struct MockError;
impl digital::Error for MockError {
    fn kind(&self) -> digital::ErrorKind {
        digital::ErrorKind::Other
    }
}

/// Global operation counter shared by all mocks of a harness: gives cross-object ordering.
pub struct Clock {
    pub ops: Cell<u32>,
    pub ns: Cell<u64>,
    /// index of the low-level operation that fails (u32::MAX = none)
    pub fail_at: Cell<u32>,
}
impl Clock {
    pub fn new() -> Self {
        Clock { ops: Cell::new(0), ns: Cell::new(0), fail_at: Cell::new(u32::MAX) }
    }
    /// ticks the op counter; returns Err if this op is the failing one
    pub fn op(&self) -> Result<u32, MockError> {
        let k = self.ops.get();
        self.ops.set(k + 1);
        if k == self.fail_at.get() { Err(MockError) } else { Ok(k) }
    }
}

pub struct MockDelay<'a>(pub &'a Clock);
impl DelayNs for MockDelay<'_> {
    fn delay_ns(&mut self, ns: u32) {
        self.0.ns.set(self.0.ns.get() + ns as u64);
    }
}

/// Pin that records its level and the op index / time of its edges.
pub struct MockPin<'a> {
    pub clock: &'a Clock,
    pub level: Option<bool>,
    pub sets: u32,
    pub first_low_op: Option<u32>,
    pub last_high_op: Option<u32>,
    pub low_ns: u64,
    pub high_ns: u64,
}
impl<'a> MockPin<'a> {
    pub fn new(clock: &'a Clock) -> Self {
        MockPin { clock, level: None, sets: 0, first_low_op: None, last_high_op: None, low_ns: 0, high_ns: 0 }
    }
}
impl digital::ErrorType for MockPin<'_> {
    type Error = MockError;
}
impl OutputPin for MockPin<'_> {
    fn set_low(&mut self) -> Result<(), MockError> {
        let k = self.clock.op()?;
        self.level = Some(false);
        self.sets += 1;
        if self.first_low_op.is_none() {
            self.first_low_op = Some(k);
        }
        self.low_ns = self.clock.ns.get();
        Ok(())
    }
    fn set_high(&mut self) -> Result<(), MockError> {
        let k = self.clock.op()?;
        self.level = Some(true);
        self.sets += 1;
        self.last_high_op = Some(k);
        self.high_ns = self.clock.ns.get();
        Ok(())
    }
}

/// One recorded command (parameters beyond 8 bytes are not stored, only counted).
#[derive(Clone, Copy, PartialEq, Eq, Debug)]
pub struct RecCmd {
    pub op: u8,
    pub len: usize,
    pub p: [u8; 8],
}
pub const NO_CMD: RecCmd = RecCmd { op: 0, len: 0, p: [0; 8] };

/// Recording `Interface` for Display-level harnesses: last 4 commands and a summary of pixel calls.
pub struct RecIface<'a, W: Copy, const KIND: u8> {
    pub clock: &'a Clock,
    pub ncmd: usize,
    pub cmds: [RecCmd; 4],
    pub px_calls: u32,
    /// events (commands + pixel calls) seen when the last pixel call happened
    pub px_after_cmds: usize,
    pub px_count: u64,
    pub px_words: usize,
    pub px_first: Option<W>,
    /// words of the first pixel of the last burst (up to 3)
    pub px_first3: [Option<W>; 3],
    /// words of the last pixel of the last burst (up to 3)
    pub px_last3: [Option<W>; 3],
    pub repeated: bool,
}
impl<'a, W: Copy, const KIND: u8> RecIface<'a, W, KIND> {
    pub fn new(clock: &'a Clock) -> Self {
        RecIface { clock, ncmd: 0, cmds: [NO_CMD; 4], px_calls: 0, px_after_cmds: 0, px_count: 0, px_words: 0, px_first: None, px_first3: [None; 3], px_last3: [None; 3], repeated: false }
    }
    pub fn cmd(&self, i: usize) -> RecCmd {
        self.cmds[i % 4]
    }
}
pub const fn kind_of(k: u8) -> InterfaceKind {
    match k {
        0 => InterfaceKind::Serial4Line,
        1 => InterfaceKind::Parallel8Bit,
        _ => InterfaceKind::Parallel16Bit,
    }
}
impl<W: Copy, const KIND: u8> Interface for RecIface<'_, W, KIND> {
    type Word = W;
    type Error = MockError;
    const KIND: InterfaceKind = kind_of(KIND);

    fn send_command(&mut self, command: u8, args: &[u8]) -> Result<(), MockError> {
        self.clock.op()?;
        let mut p = [0u8; 8];
        let mut i = 0;
        while i < 8 {
            if i < args.len() {
                p[i] = args[i];
            }
            i += 1;
        }
        self.cmds[self.ncmd % 4] = RecCmd { op: command, len: args.len(), p };
        self.ncmd += 1;
        Ok(())
    }
    fn send_pixels<const N: usize>(&mut self, pixels: impl IntoIterator<Item = [W; N]>) -> Result<(), MockError> {
        self.clock.op()?;
        self.px_calls += 1;
        self.px_after_cmds = self.ncmd;
        self.px_words = N;
        self.repeated = false;
        let mut n = 0u64;
        self.px_first3 = [None; 3];
        self.px_last3 = [None; 3];
        for p in pixels {
            let mut w3 = [None; 3];
            let mut i = 0;
            while i < 3 {
                if i < N { w3[i] = Some(p[i]); }
                i += 1;
            }
            if n == 0 && N > 0 {
                self.px_first = Some(p[0]);
                self.px_first3 = w3;
            }
            self.px_last3 = w3;
            n += 1;
        }
        self.px_count = n;
        Ok(())
    }
    fn send_repeated_pixel<const N: usize>(&mut self, pixel: [W; N], count: u32) -> Result<(), MockError> {
        self.clock.op()?;
        self.px_calls += 1;
        self.px_after_cmds = self.ncmd;
        self.px_words = N;
        self.repeated = true;
        let mut w3 = [None; 3];
        let mut i = 0;
        while i < 3 {
            if i < N { w3[i] = Some(pixel[i]); }
            i += 1;
        }
        if N > 0 {
            self.px_first = Some(pixel[0]);
        }
        self.px_first3 = w3;
        self.px_last3 = w3;
        self.px_count = count as u64;
        Ok(())
    }
}

/// Test model with a chosen framebuffer size (C09/C16 quantify over framebuffer sizes).
pub struct FbModel<const W: u16, const H: u16>;
impl<const W: u16, const H: u16> Model for FbModel<W, H> {
    type ColorFormat = Rgb565;
    const FRAMEBUFFER_SIZE: (u16, u16) = (W, H);
    fn init<DELAY, DI>(&mut self, di: &mut DI, _delay: &mut DELAY, options: &ModelOptions) -> Result<SetAddressMode, ModelInitError<DI::Error>>
    where
        DELAY: DelayNs,
        DI: Interface,
    {
        use crate::dcs::InterfaceExt;
        let madctl = SetAddressMode::from(options);
        di.write_command(madctl)?;
        Ok(madctl)
    }
}

// ------------------------------------------------------------------------------ controller decoder
/// Interface mock that decodes DCS commands on the fly into the controller state the properties talk
/// about (executable twin of the `Ctrl` decoder of DESIGN.md 3.2, restricted to what init sequences use).
pub struct CtrlMock<'a, const KIND: u8> {
    pub clock: &'a Clock,
    /// commands received (including a software reset)
    pub n_cmds: u32,
    /// commands received after the reset phase (model commands)
    pub first_cmd: Option<(u8, usize)>,
    pub first_cmd_op: Option<u32>,
    pub n_swreset: u32,
    pub sleeping: bool,
    pub on: bool,
    pub madctl: Option<u8>,
    pub colmod: Option<u8>,
    pub inverted: Option<bool>,
    pub ramwr: u32,
    pub px_calls: u32,
    pub t_slp_ns: Option<u64>,
    /// minimum spacing observed between consecutive sleep-in/sleep-out commands
    pub min_slp_gap_ns: u64,
    pub last_op: Option<u32>,
}
impl<'a, const KIND: u8> CtrlMock<'a, KIND> {
    pub fn new(clock: &'a Clock) -> Self {
        CtrlMock { clock, n_cmds: 0, first_cmd: None, first_cmd_op: None, n_swreset: 0, sleeping: true, on: false, madctl: None,
                   colmod: None, inverted: None, ramwr: 0, px_calls: 0, t_slp_ns: None, min_slp_gap_ns: u64::MAX, last_op: None }
    }
}
impl<const KIND: u8> Interface for CtrlMock<'_, KIND> {
    type Word = u8;
    type Error = MockError;
    const KIND: InterfaceKind = kind_of(KIND);
    fn send_command(&mut self, command: u8, args: &[u8]) -> Result<(), MockError> {
        let k = self.clock.op()?;
        self.last_op = Some(k);
        if self.first_cmd.is_none() {
            self.first_cmd = Some((command, args.len()));
            self.first_cmd_op = Some(k);
        }
        self.n_cmds += 1;
        match (command, args.len()) {
            (0x01, 0) => { self.n_swreset += 1; self.sleeping = true; self.on = false; }
            (0x10, 0) | (0x11, 0) => {
                let now = self.clock.ns.get();
                if let Some(t) = self.t_slp_ns {
                    let gap = now - t;
                    if gap < self.min_slp_gap_ns { self.min_slp_gap_ns = gap; }
                }
                self.t_slp_ns = Some(now);
                self.sleeping = command == 0x10;
            }
            (0x28, 0) => self.on = false,
            (0x29, 0) => self.on = true,
            (0x20, 0) => self.inverted = Some(false),
            (0x21, 0) => self.inverted = Some(true),
            (0x36, 1) => self.madctl = Some(args[0]),
            (0x3A, 1) => self.colmod = Some(args[0]),
            (0x2C, _) | (0x3C, _) => self.ramwr += 1,
            _ => {}
        }
        Ok(())
    }
    fn send_pixels<const N: usize>(&mut self, _pixels: impl IntoIterator<Item = [u8; N]>) -> Result<(), MockError> {
        self.clock.op()?;
        self.px_calls += 1;
        Ok(())
    }
    fn send_repeated_pixel<const N: usize>(&mut self, _pixel: [u8; N], _count: u32) -> Result<(), MockError> {
        self.clock.op()?;
        self.px_calls += 1;
        Ok(())
    }
}

// ------------------------------------------------------------------ framebuffer-simulating controller
pub const FW: usize = 5;
pub const FH: usize = 4;
pub const UNTOUCHED: u16 = 0xFFFF;

/// Interface mock that behaves like a MIPI-DCS controller with a FW x FH framebuffer (executable twin of `Ctrl::step`,
/// DESIGN.md 3.2): decodes 0x36 / 0x2A / 0x2B / 0x2C and RGB565 pixel data (two bytes per pixel, MSB first) into `fb`,
/// honouring MV/MX/MY, and records every protocol violation the properties name.
pub struct FbIface {
    pub madctl: u8,
    pub col: (u16, u16),
    pub page: (u16, u16),
    pub have_col: bool,
    pub have_page: bool,
    pub armed: bool,
    pub ptr: (u16, u16),
    pub in_window: u32,
    pub fb: [[u16; FW]; FH],
    /// C08 violations
    pub bad_frame: bool,     // pixel data without preceding CASET, RASET, RAMWR in that order / wrong parameter count
    pub bad_window: bool,    // start > end
    pub outside_fb: bool,    // window end outside the framebuffer as seen under the current address mode
    pub overrun: bool,       // more pixels than the window holds (write pointer wrapped)
    pub other_cmd: bool,     // any command other than 0x2A/0x2B/0x2C during drawing
    pub windows: u32,
    pub bursts: u32,
    pub pixels: u32,
    pub seq: u8,             // 0 idle, 1 after CASET, 2 after RASET, 3 after RAMWR
}
impl FbIface {
    pub fn new(madctl: u8) -> Self {
        FbIface { madctl, col: (0, 0), page: (0, 0), have_col: false, have_page: false, armed: false, ptr: (0, 0), in_window: 0,
                  fb: [[UNTOUCHED; FW]; FH], bad_frame: false, bad_window: false, outside_fb: false, overrun: false, other_cmd: false,
                  windows: 0, bursts: 0, pixels: 0, seq: 0 }
    }
    pub fn c08_ok(&self) -> bool {
        !self.bad_frame && !self.bad_window && !self.outside_fb && !self.overrun && !self.other_cmd
    }
    fn put(&mut self, colour: u16) {
        if !self.armed { self.bad_frame = true; return; }
        let area = (self.col.1 as u32 - self.col.0 as u32 + 1) * (self.page.1 as u32 - self.page.0 as u32 + 1);
        if self.in_window >= area { self.overrun = true; }
        let (c, r) = self.ptr;
        let (mv, mx, my) = (self.madctl & 0x20 != 0, self.madctl & 0x40 != 0, self.madctl & 0x80 != 0);
        let (pc, pr) = if mv { (r as usize, c as usize) } else { (c as usize, r as usize) };
        if pc < FW && pr < FH {
            let pc = if mx { FW - 1 - pc } else { pc };
            let pr = if my { FH - 1 - pr } else { pr };
            self.fb[pr][pc] = colour;
        } else {
            self.outside_fb = true;
        }
        self.in_window += 1;
        self.pixels += 1;
        // advance the write pointer row-major inside the window, wrapping like the controller does
        if c >= self.col.1 {
            let nr = if r >= self.page.1 { self.page.0 } else { r + 1 };
            self.ptr = (self.col.0, nr);
        } else {
            self.ptr = (c + 1, r);
        }
    }
}
impl Interface for FbIface {
    type Word = u8;
    type Error = MockError;
    const KIND: InterfaceKind = InterfaceKind::Serial4Line;
    fn send_command(&mut self, command: u8, args: &[u8]) -> Result<(), MockError> {
        self.armed = false;
        let mv = self.madctl & 0x20 != 0;
        match command {
            0x36 => { if args.len() == 1 { self.madctl = args[0]; } else { self.bad_frame = true; } self.seq = 0; }
            0x2A | 0x2B => {
                if args.len() != 4 { self.bad_frame = true; return Ok(()); }
                let s = u16::from_be_bytes([args[0], args[1]]);
                let e = u16::from_be_bytes([args[2], args[3]]);
                if s > e { self.bad_window = true; }
                let limit = if (command == 0x2A) != mv { FW } else { FH };
                if e as usize >= limit { self.outside_fb = true; }
                if command == 0x2A {
                    if self.seq != 0 { self.bad_frame = true; }
                    self.col = (s, e); self.have_col = true; self.seq = 1; self.windows += 1;
                } else {
                    if self.seq != 1 { self.bad_frame = true; }
                    self.page = (s, e); self.have_page = true; self.seq = 2;
                }
            }
            0x2C => {
                if self.seq != 2 || args.len() != 0 { self.bad_frame = true; }
                self.seq = 3;
                if self.have_col && self.have_page && !self.bad_window {
                    self.armed = true;
                    self.ptr = (self.col.0, self.page.0);
                    self.in_window = 0;
                }
            }
            _ => { self.other_cmd = true; self.seq = 0; }
        }
        Ok(())
    }
    fn send_pixels<const N: usize>(&mut self, pixels: impl IntoIterator<Item = [u8; N]>) -> Result<(), MockError> {
        if self.seq != 3 { self.bad_frame = true; }
        self.bursts += 1;
        for p in pixels {
            if N == 2 { self.put(u16::from_be_bytes([p[0], p[1]])); } else { self.bad_frame = true; }
        }
        self.armed = false;
        self.seq = 0;
        Ok(())
    }
    fn send_repeated_pixel<const N: usize>(&mut self, pixel: [u8; N], count: u32) -> Result<(), MockError> {
        if self.seq != 3 { self.bad_frame = true; }
        self.bursts += 1;
        let mut i = 0;
        while i < count {
            if N == 2 { self.put(u16::from_be_bytes([pixel[0], pixel[1]])); } else { self.bad_frame = true; }
            i += 1;
        }
        self.armed = false;
        self.seq = 0;
        Ok(())
    }
}

/// where the statement says logical (x, y) lands in the simulated framebuffer
pub fn oracle_fb_cell(o: &ModelOptions, x: i64, y: i64) -> (usize, usize) {
    let pc = oracle_panel_cell(o.orientation, o.display_size.0 as i64, o.display_size.1 as i64, x, y);
    ((o.display_offset.0 as i64 + pc.0) as usize, (o.display_offset.1 as i64 + pc.1) as usize)
}
