//! DrawTarget harnesses on a simulated controller framebuffer (FW x FH = 5 x 4): C01 (all entry points), C02, C03, C04,
//! C08, C20.  Bounded stand-ins (small framebuffer, short streams) except where stated; all configurations,
//! orientations and coordinates are symbolic.
extern crate std;
#[allow(unused_imports)]
use std::{vec, vec::Vec};
use super::*;
#[allow(unused_imports)]
use embedded_hal::digital::OutputPin;
#[allow(unused_imports)]
use embedded_graphics_core::{geometry::{Dimensions, OriginDimensions}, pixelcolor::RgbColor};
#[allow(unused_imports)]
use crate::{dcs::{BitsPerPixel, InterfaceExt, WriteMemoryStart}, interface::{Interface, InterfacePixelFormat}, models::Model, Display};
use crate::vk_support::*;
use crate::Builder;
use crate::options::ModelOptions;
#[allow(unused_imports)]
use embedded_graphics_core::{draw_target::DrawTarget, geometry::Size, primitives::Rectangle, Pixel};
use embedded_graphics_core::geometry::Point;
use embedded_graphics_core::pixelcolor::raw::RawU16;
use embedded_graphics_core::pixelcolor::Rgb565;
use embedded_graphics_core::prelude::RawData;

type FDisp = Display<FbIface, FbModel<5, 4>, MockPin<'static>>;

fn colour(v: u16) -> Rgb565 { Rgb565::from(RawU16::new(v)) }

/// any display init accepts on the 5 x 4 framebuffer, over a fresh simulated controller that holds the address mode init sent
fn any_fb_display(clock: &'static Clock) -> (FDisp, ModelOptions) {
    let o = any_valid_options(5, 4);
    let madctl = oracle_madctl(o.color_order, o.orientation, o.refresh_order);
    let r = Builder::new(FbModel::<5, 4>, FbIface::new(0))
        .reset_pin(MockPin::new(clock))
        .color_order(o.color_order)
        .orientation(o.orientation)
        .refresh_order(o.refresh_order)
        .display_size(o.display_size.0, o.display_size.1)
        .display_offset(o.display_offset.0, o.display_offset.1)
        .init(&mut MockDelay(clock));
    let mut d = match r { Ok(d) => d, Err(_) => { kani::assume(false); unreachable!() } };
    // the controller holds what init sent (C11); start from a clean simulated framebuffer
    let held = d.di.madctl;
    assert!(held == madctl);
    d.di = FbIface::new(held);
    (d, o)
}
/// lighter variant for the stream-content harnesses: the whole 5 x 4 framebuffer as panel (offset 0), orientation symbolic;
/// window arithmetic for every size / offset is decided elsewhere (C01 set_pixel harnesses, Verus set_address_window)
fn full_fb_display(clock: &'static Clock) -> (FDisp, ModelOptions) {
    let orientation = any_orientation();
    let mut o = ModelOptions::with_all((5, 4), (0, 0));
    o.orientation = orientation;
    let r = Builder::new(FbModel::<5, 4>, FbIface::new(0)).reset_pin(MockPin::new(clock)).orientation(orientation).init(&mut MockDelay(clock));
    let mut d = match r { Ok(d) => d, Err(_) => { kani::assume(false); unreachable!() } };
    let held = d.di.madctl;
    d.di = FbIface::new(held);
    (d, o)
}
fn plain_fb_display(clock: &'static Clock) -> (FDisp, ModelOptions) {
    let o = ModelOptions::with_all((5, 4), (0, 0));
    let r = Builder::new(FbModel::<5, 4>, FbIface::new(0)).reset_pin(MockPin::new(clock)).init(&mut MockDelay(clock));
    let mut d = match r { Ok(d) => d, Err(_) => { kani::assume(false); unreachable!() } };
    let held = d.di.madctl;
    d.di = FbIface::new(held);
    (d, o)
}
fn leak_clock() -> &'static Clock {
    std::boxed::Box::leak(std::boxed::Box::new(Clock::new()))
}

/// expected content of every framebuffer cell after drawing: `want(x, y)` = colour of logical (x, y) or None if not drawn
fn check_fb(d: &FDisp, o: &ModelOptions, want: impl Fn(i64, i64) -> Option<u16>, tag_ok: bool) {
    let (lw, lh) = oracle_logical_size(o.orientation, o.display_size.0, o.display_size.1);
    // probe one symbolic framebuffer cell: it either is the image of exactly one logical point, or lies outside the panel window
    let (fx, fy): (usize, usize) = (kani::any(), kani::any());
    kani::assume(fx < FW && fy < FH);
    let (x, y): (u16, u16) = (kani::any(), kani::any());
    kani::assume(x < lw && y < lh);
    let cell = oracle_fb_cell(o, x as i64, y as i64);
    // (a failed kani::assert is also assumed afterwards; the nondeterministic choice keeps the three checks independent,
    // so that each property sees its own assertion)
    let which: u8 = kani::any();
    if which == 0 && cell == (fx, fy) {
        match want(x as i64, y as i64) {
            Some(c) => kani::assert(d.di.fb[fy][fx] == c, "C01: pixel is not at the rotated / mirrored / shifted position with its colour"),
            None => kani::assert(d.di.fb[fy][fx] == UNTOUCHED, "C02: a cell that was not drawn changed"),
        }
    }
    let inside = fx >= o.display_offset.0 as usize && fx < (o.display_offset.0 + o.display_size.0) as usize
        && fy >= o.display_offset.1 as usize && fy < (o.display_offset.1 + o.display_size.1) as usize;
    if which == 1 && !inside {
        kani::assert(d.di.fb[fy][fx] == UNTOUCHED, "C02: controller memory outside the panel window was modified");
    }
    if which == 2 && tag_ok {
        kani::assert(d.di.c08_ok(), "C08: malformed window / burst framing");
    }
}

// ------------------------------------------------------------------------------------------- clear / fill_solid
#[kani::proof]
#[kani::unwind(22)]
fn c01_clear_fills_exactly_the_panel() {
    let clock = leak_clock();
    let (mut d, o) = any_fb_display(clock);
    let c: u16 = kani::any();
    kani::assume(c != UNTOUCHED);
    kani::assert(d.clear(colour(c)).is_ok(), "C02: clear returned an error on a fault-free bus");
    check_fb(&d, &o, |_x, _y| Some(c), true);
    kani::assert(d.di.windows == 1 && d.di.bursts == 1, "C20: clear must use exactly one address window");
    kani::cover!(o.display_offset.0 > 0 && o.display_size.0 < 5);
}

/// any valid e-g rectangle (all of i32 x i32 x u32 x u32 with fewer than 2^32 points): clip == filter
#[kani::proof]
#[kani::unwind(22)]
fn c02_fill_solid_any_rectangle() {
    let clock = leak_clock();
    let (mut d, o) = any_fb_display(clock);
    let (rx, ry, rw, rh): (i32, i32, u32, u32) = (kani::any(), kani::any(), kani::any(), kani::any());
    kani::assume(rw <= i32::MAX as u32 && rh <= i32::MAX as u32);
    kani::assume(rx as i64 + rw as i64 <= i32::MAX as i64 && ry as i64 + rh as i64 <= i32::MAX as i64);
    kani::assume((rw as u64) * (rh as u64) < (1u64 << 32));
    let rect = Rectangle::new(Point::new(rx, ry), Size::new(rw, rh));
    let c: u16 = kani::any();
    kani::assume(c != UNTOUCHED);
    kani::assert(d.fill_solid(&rect, colour(c)).is_ok(), "C02: fill_solid returned an error on a fault-free bus");
    let inr = move |x: i64, y: i64| x >= rx as i64 && x < rx as i64 + rw as i64 && y >= ry as i64 && y < ry as i64 + rh as i64;
    check_fb(&d, &o, |x, y| if inr(x, y) { Some(c) } else { None }, true);
    kani::assert(d.di.windows <= 1 && d.di.bursts == d.di.windows, "C20: a solid fill uses at most one address window");
    kani::cover!(d.di.windows == 1 && rx < 0);
    kani::cover!(d.di.windows == 0);
}

/// bounded, cheap: small rectangles on the plain 5 x 4 panel - exactly one window and one burst per solid fill that
/// touches the panel, none otherwise (the every-change version of the C20 clause of the harness above; it stays cheap on
/// code that loops per row)
#[kani::proof]
#[kani::unwind(22)]
fn c20_fill_solid_one_window_plain() {
    let clock = leak_clock();
    let (mut d, _o) = plain_fb_display(clock);
    let (rx, ry): (i8, i8) = (kani::any(), kani::any());
    let (rw, rh): (u8, u8) = (kani::any(), kani::any());
    kani::assume(rx >= -3 && rx <= 6 && ry >= -3 && ry <= 5 && rw <= 9 && rh <= 8);
    let rect = Rectangle::new(Point::new(rx as i32, ry as i32), Size::new(rw as u32, rh as u32));
    kani::assert(d.fill_solid(&rect, colour(7)).is_ok(), "C02: fill_solid returned an error on a fault-free bus");
    let visible = rw > 0 && rh > 0 && (rx as i32) < 5 && (ry as i32) < 4 && (rx as i32 + rw as i32) > 0 && (ry as i32 + rh as i32) > 0;
    kani::assert(d.di.windows == visible as u32 && d.di.bursts == d.di.windows, "C20: a solid fill uses exactly one address window (none when nothing is visible)");
    kani::cover!(visible && rx < 0 && ry < 0);
    kani::cover!(!visible);
}

// ---------------------------------------------------------------------------------------------- fill_contiguous
/// colour stream whose k-th item encodes k (raw value k + 1), `len` items long; O(1) nth
struct Counting { next: u32, len: u32 }
impl Iterator for Counting {
    type Item = Rgb565;
    fn next(&mut self) -> Option<Rgb565> {
        if self.next < self.len { let k = self.next; self.next += 1; Some(colour((k + 1) as u16)) } else { None }
    }
    fn nth(&mut self, n: usize) -> Option<Rgb565> {
        let n = n as u64;
        if (self.next as u64 + n) < self.len as u64 { self.next += n as u32; self.next() } else { self.next = self.len; None }
    }
}

/// bounded: rectangles with corner in -2..=5 and sides 0..=8 x 0..=5 (every clipping case against the 5 x 4 / 4 x 5
/// display: inside, each edge, corners, enclosing, disjoint, zero-sized), stream length 0..=area+2
#[kani::proof]
#[kani::unwind(44)]
fn c04_fill_contiguous_colour_k_on_point_k() {
    let clock = leak_clock();
    let (mut d, o) = full_fb_display(clock);
    let (rx, ry): (i8, i8) = (kani::any(), kani::any());
    let (rw, rh): (u8, u8) = (kani::any(), kani::any());
    kani::assume(rx >= -2 && rx <= 5 && ry >= -2 && ry <= 5 && rw <= 8 && rh <= 5);
    let rect = Rectangle::new(Point::new(rx as i32, ry as i32), Size::new(rw as u32, rh as u32));
    let area = rw as u32 * rh as u32;
    let len: u32 = kani::any();
    kani::assume(len <= area + 2);
    kani::assert(d.fill_contiguous(&rect, Counting { next: 0, len }).is_ok(), "C02: fill_contiguous returned an error on a fault-free bus");
    let (rx, ry, rw, rh) = (rx as i64, ry as i64, rw as i64, rh as i64);
    // the k-th colour belongs to the k-th point of the requested rectangle in row-major order
    let want = move |x: i64, y: i64| -> Option<u16> {
        if x >= rx && x < rx + rw && y >= ry && y < ry + rh {
            let k = (y - ry) * rw + (x - rx);
            if k < len as i64 { Some((k + 1) as u16) } else { None }
        } else { None }
    };
    // a stream that ends early leaves the remaining points untouched: points beyond the stream may stay UNTOUCHED only;
    // points inside the stream must carry their own colour unless an earlier visible point was already beyond the stream
    let (lw, lh) = oracle_logical_size(o.orientation, o.display_size.0, o.display_size.1);
    let (fx, fy): (usize, usize) = (kani::any(), kani::any());
    kani::assume(fx < FW && fy < FH);
    let (x, y): (u16, u16) = (kani::any(), kani::any());
    kani::assume(x < lw && y < lh);
    let which: u8 = kani::any();   // independent checks (a failed kani::assert is assumed afterwards)
    if which == 0 && oracle_fb_cell(&o, x as i64, y as i64) == (fx, fy) {
        match want(x as i64, y as i64) {
            Some(c) => kani::assert(d.di.fb[fy][fx] == c, "C04: colour k is not on point k"),
            None => kani::assert(d.di.fb[fy][fx] == UNTOUCHED, "C04: a point outside the rectangle or beyond the stream was drawn"),
        }
    }
    let inside = fx >= o.display_offset.0 as usize && fx < (o.display_offset.0 + o.display_size.0) as usize
        && fy >= o.display_offset.1 as usize && fy < (o.display_offset.1 + o.display_size.1) as usize;
    if which == 1 && !inside { kani::assert(d.di.fb[fy][fx] == UNTOUCHED, "C02: controller memory outside the panel window was modified"); }
    if which == 2 { kani::assert(d.di.c08_ok(), "C08: malformed window / burst framing"); }
    if which == 3 { kani::assert(d.di.windows <= 1, "C20: a contiguous fill uses at most one address window"); }
    kani::cover!(d.di.windows == 1 && rx < 0 && ry < 0 && len == area);
    kani::cover!(d.di.windows == 1 && len < area);
}

/// the same statement on the default orientation only (the every-change version of the harness above)
#[kani::proof]
#[kani::unwind(22)]
fn c04_fill_contiguous_plain() {
    let clock = leak_clock();
    let (mut d, o) = plain_fb_display(clock);
    let (rx, ry): (i8, i8) = (kani::any(), kani::any());
    let (rw, rh): (u8, u8) = (kani::any(), kani::any());
    kani::assume(rx >= -2 && rx <= 5 && ry >= -2 && ry <= 4 && rw <= 8 && rh <= 2);
    let rect = Rectangle::new(Point::new(rx as i32, ry as i32), Size::new(rw as u32, rh as u32));
    let area = rw as u32 * rh as u32;
    let len: u32 = kani::any();
    kani::assume(len <= area + 2);
    kani::assert(d.fill_contiguous(&rect, Counting { next: 0, len }).is_ok(), "C02: fill_contiguous returned an error on a fault-free bus");
    let (rx, ry, rw, rh) = (rx as i64, ry as i64, rw as i64, rh as i64);
    // the k-th colour belongs to the k-th point of the requested rectangle in row-major order
    let want = move |x: i64, y: i64| -> Option<u16> {
        if x >= rx && x < rx + rw && y >= ry && y < ry + rh {
            let k = (y - ry) * rw + (x - rx);
            if k < len as i64 { Some((k + 1) as u16) } else { None }
        } else { None }
    };
    // a stream that ends early leaves the remaining points untouched: points beyond the stream may stay UNTOUCHED only;
    // points inside the stream must carry their own colour unless an earlier visible point was already beyond the stream
    let (lw, lh) = oracle_logical_size(o.orientation, o.display_size.0, o.display_size.1);
    let (fx, fy): (usize, usize) = (kani::any(), kani::any());
    kani::assume(fx < FW && fy < FH);
    let (x, y): (u16, u16) = (kani::any(), kani::any());
    kani::assume(x < lw && y < lh);
    let which: u8 = kani::any();   // independent checks (a failed kani::assert is assumed afterwards)
    if which == 0 && oracle_fb_cell(&o, x as i64, y as i64) == (fx, fy) {
        match want(x as i64, y as i64) {
            Some(c) => kani::assert(d.di.fb[fy][fx] == c, "C04: colour k is not on point k"),
            None => kani::assert(d.di.fb[fy][fx] == UNTOUCHED, "C04: a point outside the rectangle or beyond the stream was drawn"),
        }
    }
    let inside = fx >= o.display_offset.0 as usize && fx < (o.display_offset.0 + o.display_size.0) as usize
        && fy >= o.display_offset.1 as usize && fy < (o.display_offset.1 + o.display_size.1) as usize;
    if which == 1 && !inside { kani::assert(d.di.fb[fy][fx] == UNTOUCHED, "C02: controller memory outside the panel window was modified"); }
    if which == 2 { kani::assert(d.di.c08_ok(), "C08: malformed window / burst framing"); }
    if which == 3 { kani::assert(d.di.windows <= 1, "C20: a contiguous fill uses at most one address window"); }
    kani::cover!(d.di.windows == 1 && rx < 0 && ry < 0 && len == area);
    kani::cover!(d.di.windows == 1 && len < area);
}

// ---------------------------------------------------------------------------------------------------- draw_iter
/// 3 pixels with arbitrary i32 coordinates and colours: same panel content as set_pixel one by one in order on the
/// in-bounds ones (last write wins), out-of-bounds pixels discarded, no panic, no error, framing intact
#[kani::proof]
#[kani::unwind(8)]
fn c03_draw_iter_equals_set_pixel_sequence() {
    let clock = leak_clock();
    let (mut d, o) = full_fb_display(clock);
    let p: [(i32, i32, u16); 3] = kani::any();
    kani::assume(p[0].2 != UNTOUCHED && p[1].2 != UNTOUCHED && p[2].2 != UNTOUCHED);
    let px = [Pixel(Point::new(p[0].0, p[0].1), colour(p[0].2)), Pixel(Point::new(p[1].0, p[1].1), colour(p[1].2)), Pixel(Point::new(p[2].0, p[2].1), colour(p[2].2))];
    let n: usize = kani::any();
    kani::assume(n <= 3);
    kani::assert(d.draw_iter(px.into_iter().take(n)).is_ok(), "C02: draw_iter returned an error on a fault-free bus");
    let want = move |x: i64, y: i64| -> Option<u16> {
        let mut r = None;
        let mut i = 0;
        while i < 3 {
            if i < n && p[i].0 as i64 == x && p[i].1 as i64 == y { r = Some(p[i].2); }
            i += 1;
        }
        r
    };
    check_fb(&d, &o, want, true);
    let (lw, lh) = oracle_logical_size(o.orientation, o.display_size.0, o.display_size.1);
    let inb = |q: (i32, i32, u16)| q.0 >= 0 && q.1 >= 0 && (q.0 as i64) < lw as i64 && (q.1 as i64) < lh as i64;
    let visible = (n > 0 && inb(p[0])) as u32 + (n > 1 && inb(p[1])) as u32 + (n > 2 && inb(p[2])) as u32;
    kani::assert(d.di.windows <= visible, "C20: more address windows than in-bounds pixels");
    kani::assert(d.di.pixels == visible, "C03: a pixel was dropped or duplicated");
    kani::cover!(visible == 3);
    kani::cover!(n == 3 && visible == 1);
}

/// 2 pixels, default orientation, arbitrary i32 coordinates: the cheap every-change version of the harness above
#[kani::proof]
#[kani::unwind(6)]
fn c03_draw_iter_two_pixels() {
    let clock = leak_clock();
    let (mut d, o) = plain_fb_display(clock);
    let p: [(i32, i32, u16); 2] = kani::any();
    kani::assume(p[0].2 != UNTOUCHED && p[1].2 != UNTOUCHED);
    let px = [Pixel(Point::new(p[0].0, p[0].1), colour(p[0].2)), Pixel(Point::new(p[1].0, p[1].1), colour(p[1].2))];
    kani::assert(d.draw_iter(px).is_ok(), "C02: draw_iter returned an error on a fault-free bus");
    let want = move |x: i64, y: i64| -> Option<u16> {
        let mut r = None;
        if p[0].0 as i64 == x && p[0].1 as i64 == y { r = Some(p[0].2); }
        if p[1].0 as i64 == x && p[1].1 as i64 == y { r = Some(p[1].2); }
        r
    };
    check_fb(&d, &o, want, true);
    let inb = |q: (i32, i32, u16)| q.0 >= 0 && q.1 >= 0 && q.0 < 5 && q.1 < 4;
    let visible = inb(p[0]) as u32 + inb(p[1]) as u32;
    kani::assert(d.di.windows <= visible, "C20: more address windows than in-bounds pixels");
    kani::assert(d.di.pixels == visible, "C03: a pixel was dropped or duplicated");
    kani::cover!(visible == 2);
    kani::cover!(visible == 1);
}
