//! C19 harnesses (child of `test_image`).
extern crate std;
#[allow(unused_imports)]
use std::{vec, vec::Vec};
use super::*;
#[allow(unused_imports)]
use embedded_graphics_core::{draw_target::DrawTarget, geometry::{OriginDimensions, Point, Size}, pixelcolor::{Rgb565, RgbColor}, primitives::Rectangle, Drawable, Pixel};

const MAXC: usize = 32;
#[derive(Clone, Copy)]
struct Call<C: RgbColor> { rect: Rectangle, contiguous: bool, colour: C }

/// Draw target of symbolic size that records the calls (rectangle + colour) without iterating pixel data: drawing the
/// test image on it is loop-free except for the constant 20-row marker loop, so the harness covers every size at once.
struct RecTarget<C: RgbColor> { size: Size, calls: [Call<C>; MAXC], n: usize, overflow: bool, pixel_calls: u32 }
impl<C: RgbColor> RecTarget<C> {
    fn new(w: u32, h: u32) -> Self {
        RecTarget { size: Size::new(w, h), calls: [Call { rect: Rectangle::zero(), contiguous: false, colour: C::BLACK }; MAXC], n: 0, overflow: false, pixel_calls: 0 }
    }
    fn rec(&mut self, rect: Rectangle, contiguous: bool, colour: C) {
        if self.n < MAXC { self.calls[self.n] = Call { rect, contiguous, colour }; self.n += 1; } else { self.overflow = true; }
    }
    /// index of the last call whose rectangle covers p (what p finally shows), if any
    fn last_cover(&self, p: Point) -> Option<usize> {
        let mut r = None;
        let mut i = 0;
        while i < MAXC {
            if i < self.n && self.calls[i].rect.contains(p) { r = Some(i); }
            i += 1;
        }
        r
    }
}
impl<C: RgbColor> OriginDimensions for RecTarget<C> { fn size(&self) -> Size { self.size } }
impl<C: RgbColor> DrawTarget for RecTarget<C> {
    type Color = C;
    type Error = core::convert::Infallible;
    fn draw_iter<I: IntoIterator<Item = Pixel<C>>>(&mut self, _pixels: I) -> Result<(), Self::Error> { self.pixel_calls += 1; Ok(()) }
    fn fill_contiguous<I: IntoIterator<Item = C>>(&mut self, area: &Rectangle, _colors: I) -> Result<(), Self::Error> { self.rec(*area, true, C::BLACK); Ok(()) }
    fn fill_solid(&mut self, area: &Rectangle, color: C) -> Result<(), Self::Error> { self.rec(*area, false, color); Ok(()) }
}

/// no panic on any target size from 0 x 0 upward (e-g rectangle arithmetic, try_from(5).unwrap(), width / 3, the marker loop)
#[kani::proof]
#[kani::unwind(23)]
fn c19_no_panic_any_size() { no_panic_any_size::<Rgb565>() }
#[kani::proof]
#[kani::unwind(23)]
fn c19_no_panic_any_size_rgb666() { no_panic_any_size::<embedded_graphics_core::pixelcolor::Rgb666>() }
#[kani::proof]
#[kani::unwind(23)]
fn c19_no_panic_any_size_rgb888() { no_panic_any_size::<embedded_graphics_core::pixelcolor::Rgb888>() }
fn no_panic_any_size<C: RgbColor>() {
    let (w, h): (u16, u16) = (kani::any(), kani::any());
    let mut t = RecTarget::<C>::new(w as u32, h as u32);
    assert!(TestImage::<C>::new().draw(&mut t).is_ok());
    kani::assert(!t.overflow && t.pixel_calls == 0, "C19: test image relies only on fill_contiguous / fill_solid and the target's clipping");
    kani::cover!(w == 0 && h == 0);
}

/// all sizes >= 32 x 32: structure of the image (call-level contract) and witness points for the seven symmetries
#[kani::proof]
#[kani::unwind(34)]
fn c19_structure_and_symmetry_witnesses() { structure_and_symmetry_witnesses::<Rgb565>() }
#[kani::proof]
#[kani::unwind(34)]
fn c19_structure_and_symmetry_witnesses_rgb666() { structure_and_symmetry_witnesses::<embedded_graphics_core::pixelcolor::Rgb666>() }
#[kani::proof]
#[kani::unwind(34)]
fn c19_structure_and_symmetry_witnesses_rgb888() { structure_and_symmetry_witnesses::<embedded_graphics_core::pixelcolor::Rgb888>() }
fn structure_and_symmetry_witnesses<C: RgbColor>() {
    let (w, h): (u16, u16) = (kani::any(), kani::any());
    kani::assume(w >= 32 && h >= 32);
    let (w, h) = (w as i32, h as i32);
    let mut t = RecTarget::<C>::new(w as u32, h as u32);
    assert!(TestImage::<C>::new().draw(&mut t).is_ok());
    let bbox = Rectangle::new(Point::zero(), Size::new(w as u32, h as u32));
    // call 0 paints every pixel of the target (border stream)
    kani::assert(t.n == 27 && t.calls[0].contiguous && t.calls[0].rect == bbox, "C19: the first call must paint the whole target");
    // everything else stays inside the 5-pixel margin, so the outermost ring (and the next 4) shows only call 0
    let inner = Rectangle::new(Point::new(5, 5), Size::new((w - 10) as u32, (h - 10) as u32));
    let k: usize = kani::any();
    kani::assume(k >= 1 && k < 27);
    let r = t.calls[k].rect;
    if let Some(br) = r.bottom_right() {
        // solid fills stay inside the 5-pixel margin; glyph rectangles (9 x 11, centred on a bar that may be only 7 wide)
        // may overhang into the black padding but never reach the outermost ring, which therefore shows only call 0
        let ring = Rectangle::new(Point::new(1, 1), Size::new((w - 2) as u32, (h - 2) as u32));
        let fits = if t.calls[k].contiguous { ring.contains(r.top_left) && ring.contains(br) } else { inner.contains(r.top_left) && inner.contains(br) };
        kani::assert(fits, "C19: a later call paints into the white frame");
    }
    // colour bars: green over the whole inner area, then red on the left third, blue on the right third
    kani::assert(!t.calls[1].contiguous && t.calls[1].rect == inner && t.calls[1].colour == C::GREEN, "C19: green bar");
    kani::assert(t.calls[2].contiguous && t.calls[4].contiguous && t.calls[6].contiguous, "C19: glyphs are contiguous fills");
    let (red, blue) = (t.calls[3], t.calls[5]);
    kani::assert(!red.contiguous && red.colour == C::RED && !blue.contiguous && blue.colour == C::BLUE, "C19: red and blue bars");
    let third = ((w - 10) / 3) as u32;
    kani::assert(red.rect == Rectangle::new(Point::new(5, 5), Size::new(third, (h - 10) as u32)), "C19: red bar is the left third");
    kani::assert(blue.rect == Rectangle::new(Point::new(w - 5 - third as i32, 5), Size::new(third, (h - 10) as u32)), "C19: blue bar is the right third");
    kani::assert(5 + (third as i32) < w - 5 - third as i32, "C19: a green region remains between red and blue");
    // marker: 20 white rows of decreasing width from the top-left corner of the inner area
    let j: usize = kani::any();
    kani::assume(j < 20);
    let m = t.calls[7 + j];
    kani::assert(!m.contiguous && m.colour == C::WHITE && m.rect == Rectangle::new(Point::new(5, 5 + j as i32), Size::new(20 - j as u32, 1)), "C19: top-left marker");
    // ---- witness points: final colour = colour of the last call covering the point (none of them lies in a glyph rectangle)
    let solid = |p: Point| -> Option<C> {
        match t.last_cover(p) { Some(i) if !t.calls[i].contiguous => Some(t.calls[i].colour), _ => None }
    };
    let tl = Point::new(5, 5);                  // marker apex: white
    let tr = Point::new(w - 6, 5);              // top right of the inner area: blue
    let bl = Point::new(5, h - 6);              // bottom left: red
    let brp = Point::new(w - 6, h - 6);         // bottom right: blue
    kani::assert(solid(tl) == Some(C::WHITE) && solid(tr) == Some(C::BLUE) && solid(bl) == Some(C::RED) && solid(brp) == Some(C::BLUE), "C19: corner witnesses (marker / red / blue) are not what the diagnosis relies on");
    // mirror left-right: bl <-> brp (red vs blue); rotate 180: bl <-> tr (red vs blue); mirror top-bottom: tl <-> bl (white vs red)
    assert!(Point::new(w - 1 - bl.x, bl.y) == brp && Point::new(w - 1 - bl.x, h - 1 - bl.y) == tr && Point::new(tl.x, h - 1 - tl.y) == bl);
    // on square targets the four transposing symmetries map tl to tr / bl / brp (white vs blue / red / blue); on non-square
    // targets they change the size of the picture
    if w == h {
        assert!(Point::new(h - 1 - tl.y, tl.x) == tr && Point::new(tl.y, w - 1 - tl.x) == bl && Point::new(h - 1 - tl.y, w - 1 - tl.x) == brp && Point::new(tr.y, tr.x) == bl);
    }
    kani::cover!(w == h);
    kani::cover!(w == 32 && h == 65535);
}

/// Target that checks the colour stream of a contiguous fill point by point (small sizes only)
struct RingTarget { size: Size, ok: bool, painted: u32, calls: u32 }
impl OriginDimensions for RingTarget { fn size(&self) -> Size { self.size } }
impl DrawTarget for RingTarget {
    type Color = Rgb565;
    type Error = core::convert::Infallible;
    fn draw_iter<I: IntoIterator<Item = Pixel<Rgb565>>>(&mut self, _pixels: I) -> Result<(), Self::Error> { self.ok = false; Ok(()) }
    fn fill_contiguous<I: IntoIterator<Item = Rgb565>>(&mut self, area: &Rectangle, colors: I) -> Result<(), Self::Error> {
        self.calls += 1;
        let (w, h) = (self.size.width as i32, self.size.height as i32);
        if *area != Rectangle::new(Point::zero(), self.size) { self.ok = false; }
        let mut it = colors.into_iter();
        let mut k: i32 = 0;
        while k < w * h {
            let (x, y) = (k % w, k / w);
            let ring = x == 0 || y == 0 || x == w - 1 || y == h - 1;
            match it.next() {
                Some(c) => { if c != (if ring { Rgb565::WHITE } else { Rgb565::BLACK }) { self.ok = false; } self.painted += 1; }
                None => { self.ok = false; }
            }
            k += 1;
        }
        Ok(())
    }
    fn fill_solid(&mut self, _area: &Rectangle, _color: Rgb565) -> Result<(), Self::Error> { self.ok = false; Ok(()) }
}
/// BOUNDED stand-in (targets up to 6 x 6): the border stream paints every pixel, white exactly on the outermost ring
#[kani::proof]
#[kani::unwind(38)]
fn c19_border_ring_bounded_6() { border_ring(6) }
#[kani::proof]
#[kani::unwind(18)]
fn c19_border_ring_bounded_4() { border_ring(4) }
fn border_ring(maxd: u32) {
    let (w, h): (u32, u32) = (kani::any(), kani::any());
    kani::assume(w >= 1 && w <= maxd && h >= 1 && h <= maxd);
    let mut t = RingTarget { size: Size::new(w, h), ok: true, painted: 0, calls: 0 };
    assert!(draw_border(&mut t, BORDER_WIDTH).is_ok());
    kani::assert(t.ok && t.calls == 1 && t.painted == w * h, "C19: the border stream must paint every pixel, white exactly on the outermost ring");
    kani::cover!(w == maxd && h == maxd - 1);
}
