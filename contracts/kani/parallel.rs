//! C07 harnesses (child of `interface::parallel`: sees `last`, `send_word`, `is_same`).
extern crate std;
#[allow(unused_imports)]
use std::{vec, vec::Vec};
use super::*;
#[allow(unused_imports)]
use embedded_hal::digital::OutputPin;
#[allow(unused_imports)]
use crate::interface::{Interface, InterfaceKind};
use crate::vk_support::*;
use core::cell::Cell;
use embedded_hal::digital;

/// Electrical state shared by the mock pins of one parallel port: what a controller would see.
pub struct Port {
    pub clock: Clock,
    /// current level of the data pins (bit i = pin i); `known` marks pins that have a defined level
    pub value: Cell<u16>,
    pub dc: Cell<bool>,
    pub wr: Cell<bool>,
    /// values present on the data pins at each rising edge of WR, with the DC level at that edge
    pub latched: Cell<[u16; 6]>,
    pub latched_dc: Cell<[bool; 6]>,
    pub n_latched: Cell<usize>,
    /// op index of the last data-pin write
    pub last_data_op: Cell<u32>,
    pub data_writes: Cell<u32>,
}
impl Port {
    pub fn new(value: u16) -> Self {
        Port { clock: Clock::new(), value: Cell::new(value), dc: Cell::new(true), wr: Cell::new(true), latched: Cell::new([0; 6]),
               latched_dc: Cell::new([false; 6]), n_latched: Cell::new(0), last_data_op: Cell::new(0), data_writes: Cell::new(0) }
    }
}
pub struct DataPin<'a>(pub &'a Port, pub u8);
impl digital::ErrorType for DataPin<'_> { type Error = MockError; }
impl OutputPin for DataPin<'_> {
    fn set_low(&mut self) -> Result<(), MockError> {
        let k = self.0.clock.op()?;
        self.0.value.set(self.0.value.get() & !(1u16 << self.1));
        self.0.last_data_op.set(k);
        self.0.data_writes.set(self.0.data_writes.get() + 1);
        Ok(())
    }
    fn set_high(&mut self) -> Result<(), MockError> {
        let k = self.0.clock.op()?;
        self.0.value.set(self.0.value.get() | (1u16 << self.1));
        self.0.last_data_op.set(k);
        self.0.data_writes.set(self.0.data_writes.get() + 1);
        Ok(())
    }
}
pub struct DcPin<'a>(pub &'a Port);
impl digital::ErrorType for DcPin<'_> { type Error = MockError; }
impl OutputPin for DcPin<'_> {
    fn set_low(&mut self) -> Result<(), MockError> { self.0.clock.op()?; self.0.dc.set(false); Ok(()) }
    fn set_high(&mut self) -> Result<(), MockError> { self.0.clock.op()?; self.0.dc.set(true); Ok(()) }
}
pub struct WrPin<'a>(pub &'a Port);
impl digital::ErrorType for WrPin<'_> { type Error = MockError; }
impl OutputPin for WrPin<'_> {
    fn set_low(&mut self) -> Result<(), MockError> { self.0.clock.op()?; self.0.wr.set(false); Ok(()) }
    fn set_high(&mut self) -> Result<(), MockError> {
        self.0.clock.op()?;
        if !self.0.wr.get() {
            // rising edge: the controller latches the data bus
            let n = self.0.n_latched.get();
            if n < 6 {
                let mut l = self.0.latched.get();
                l[n] = self.0.value.get();
                self.0.latched.set(l);
                let mut d = self.0.latched_dc.get();
                d[n] = self.0.dc.get();
                self.0.latched_dc.set(d);
            }
            self.0.n_latched.set(n + 1);
        }
        self.0.wr.set(true);
        Ok(())
    }
}

type Bus8<'a> = Generic8BitBus<DataPin<'a>, DataPin<'a>, DataPin<'a>, DataPin<'a>, DataPin<'a>, DataPin<'a>, DataPin<'a>, DataPin<'a>>;
fn bus8(p: &Port) -> Bus8<'_> {
    Generic8BitBus::new((DataPin(p, 0), DataPin(p, 1), DataPin(p, 2), DataPin(p, 3), DataPin(p, 4), DataPin(p, 5), DataPin(p, 6), DataPin(p, 7)))
}
type Bus16<'a> = Generic16BitBus<DataPin<'a>, DataPin<'a>, DataPin<'a>, DataPin<'a>, DataPin<'a>, DataPin<'a>, DataPin<'a>, DataPin<'a>,
    DataPin<'a>, DataPin<'a>, DataPin<'a>, DataPin<'a>, DataPin<'a>, DataPin<'a>, DataPin<'a>, DataPin<'a>>;
fn bus16(p: &Port) -> Bus16<'_> {
    Generic16BitBus::new((DataPin(p, 0), DataPin(p, 1), DataPin(p, 2), DataPin(p, 3), DataPin(p, 4), DataPin(p, 5), DataPin(p, 6), DataPin(p, 7),
        DataPin(p, 8), DataPin(p, 9), DataPin(p, 10), DataPin(p, 11), DataPin(p, 12), DataPin(p, 13), DataPin(p, 14), DataPin(p, 15)))
}

/// Induction step of the bus-cache invariant `last == Some(v) ==> pins show v`, for every previous state, every value
/// and every single pin-write failure (8-bit bus).  `set_value` is loop-free after macro expansion: complete.
#[kani::proof]
fn c07_set_value_step_8() {
    let levels: u8 = kani::any();
    let p = Port::new(levels as u16);
    let mut bus = bus8(&p);
    bus.last = if kani::any() { Some(levels) } else { None };   // any state satisfying the invariant
    let k: u32 = kani::any();
    p.clock.fail_at.set(k);
    let v: u8 = kani::any();
    let r = bus.set_value(v);
    match r {
        Ok(()) => {
            kani::assert(p.value.get() == v as u16, "C07: data pins do not show the value written");
            kani::assert(bus.last == Some(v), "C07: cache not updated");
            kani::assert(p.clock.ops.get() <= k, "C12: failing pin write swallowed");
        }
        Err(_) => {
            kani::assert(bus.last.is_none(), "C07: C12: cache claims a value after a failed pin write (a later call would skip pins that were never written)");
            kani::assert(p.clock.ops.get() == k + 1, "C12: pin written after the failing one");
        }
    }
    if let Some(l) = bus.last { kani::assert(p.value.get() == l as u16, "C07: C12: cache invariant broken"); }
    kani::cover!(r.is_err());
    kani::cover!(r.is_ok() && p.data_writes.get() == 0);
}
#[kani::proof]
fn c07_set_value_step_16() {
    let levels: u16 = kani::any();
    let p = Port::new(levels);
    let mut bus = bus16(&p);
    bus.last = if kani::any() { Some(levels) } else { None };
    let k: u32 = kani::any();
    p.clock.fail_at.set(k);
    let v: u16 = kani::any();
    let r = bus.set_value(v);
    match r {
        Ok(()) => {
            kani::assert(p.value.get() == v, "C07: data pins do not show the value written");
            kani::assert(bus.last == Some(v), "C07: cache not updated");
        }
        Err(_) => {
            kani::assert(bus.last.is_none(), "C07: C12: cache claims a value after a failed pin write (a later call would skip pins that were never written)");
            kani::assert(p.clock.ops.get() == k + 1, "C12: pin written after the failing one");
        }
    }
    if let Some(l) = bus.last { kani::assert(p.value.get() == l, "C07: C12: cache invariant broken"); }
    kani::cover!(r.is_err());
}
/// base case: a new bus claims nothing
#[kani::proof]
fn c07_new_bus_has_no_cache() {
    let p = Port::new(kani::any());
    kani::assert(bus8(&p).last.is_none() && bus16(&p).last.is_none(), "C07: new bus must not assume pin levels");
}

/// unit interleaving: WR low, bus settles to `word`, WR high - the value at the rising edge is `word`, from any state
/// satisfying the cache invariant; with fault injection the error names its source and nothing follows the failure
#[kani::proof]
fn c07_send_word_latches_word() {
    let levels: u8 = kani::any();
    let p = Port::new(levels as u16);
    let mut bus = bus8(&p);
    bus.last = if kani::any() { Some(levels) } else { None };
    let mut pi = ParallelInterface::new(bus, DcPin(&p), WrPin(&p));
    let k: u32 = kani::any();
    p.clock.fail_at.set(k);
    let w: u8 = kani::any();
    let r = pi.send_word(w);
    match r {
        Ok(()) => {
            kani::assert(p.n_latched.get() == 1 && p.latched.get()[0] == w as u16, "C07: value at the rising WR edge is not the word sent");
            kani::assert(p.wr.get(), "C07: WR left low");
            assert!(p.clock.ops.get() <= k);
        }
        Err(e) => {
            let n = p.clock.ops.get();
            kani::assert(n == k + 1, "C12: operation issued after the failing one");
            match e {
                ParallelError::Wr(_) => kani::assert(k == 0 || k == n - 1, "C12: Wr error not from the write strobe"),
                ParallelError::Bus(_) => kani::assert(k >= 1, "C12: Bus error not from a data pin"),
                ParallelError::Dc(_) => kani::assert(false, "C12: Dc error from send_word"),
            }
            kani::assert(p.n_latched.get() == 0, "C07: a word was latched although the call failed before the rising edge");
        }
    }
    kani::cover!(r.is_ok());
    kani::cover!(matches!(r, Err(ParallelError::Bus(_))));
}

/// command + up to 3 parameters: latched sequence is [instruction, params..], DC low exactly at the instruction's edge
#[kani::proof]
#[kani::unwind(5)]
fn c07_send_command_bounded() {
    let levels: u8 = kani::any();
    let p = Port::new(levels as u16);
    let mut bus = bus8(&p);
    bus.last = if kani::any() { Some(levels) } else { None };
    let mut pi = ParallelInterface::new(bus, DcPin(&p), WrPin(&p));
    let cmd: u8 = kani::any();
    let args: [u8; 3] = kani::any();
    let n: usize = kani::any();
    kani::assume(n <= 3);
    assert!(pi.send_command(cmd, &args[..n]).is_ok());
    kani::assert(p.n_latched.get() == n + 1, "C07: number of write strobes");
    let l = p.latched.get();
    let d = p.latched_dc.get();
    kani::assert(l[0] == cmd as u16 && !d[0], "C07: instruction latched with DC low");
    let i: usize = kani::any();
    kani::assume(i < n);
    kani::assert(l[i + 1] == args[i] as u16 && d[i + 1], "C07: parameter latched with DC high, in order");
    assert!(p.dc.get() && p.wr.get());
}

/// pixel words in order (2 pixels x 2 words, any values incl. equal consecutive words)
#[kani::proof]
#[kani::unwind(4)]
fn c07_send_pixels_bounded() {
    let levels: u8 = kani::any();
    let p = Port::new(levels as u16);
    let mut bus = bus8(&p);
    bus.last = if kani::any() { Some(levels) } else { None };
    let mut pi = ParallelInterface::new(bus, DcPin(&p), WrPin(&p));
    let px: [[u8; 2]; 2] = kani::any();
    assert!(pi.send_pixels(px).is_ok());
    let l = p.latched.get();
    kani::assert(p.n_latched.get() == 4 && l[0] == px[0][0] as u16 && l[1] == px[0][1] as u16 && l[2] == px[1][0] as u16 && l[3] == px[1][1] as u16, "C07: pixel words latched in order");
    let d = p.latched_dc.get();
    kani::assert(d[0] && d[1] && d[2] && d[3], "C07: DC high for pixel data");
}

/// pixel words in order for three-word pixels (Rgb666 on the 8-bit bus): 2 pixels x 3 words, any values incl. equal
/// consecutive pixels and pixels whose first and last word coincide
#[kani::proof]
#[kani::unwind(5)]
fn c07_send_pixels_3word_bounded() {
    let levels: u8 = kani::any();
    let p = Port::new(levels as u16);
    let mut bus = bus8(&p);
    bus.last = if kani::any() { Some(levels) } else { None };
    let mut pi = ParallelInterface::new(bus, DcPin(&p), WrPin(&p));
    let px: [[u8; 3]; 2] = kani::any();
    assert!(pi.send_pixels(px).is_ok());
    let l = p.latched.get();
    kani::assert(p.n_latched.get() == 6, "C07: number of write strobes for two three-word pixels");
    let i: usize = kani::any();
    kani::assume(i < 6);
    kani::assert(l[i] == px[i / 3][i % 3] as u16, "C07: C05: three-word pixel words latched in order");
    kani::assert(p.latched_dc.get()[i], "C07: DC high for pixel data");
    kani::cover!(px[0] == px[1] && px[0][0] == px[0][2] && px[0][0] != px[0][1]);
}

/// repeated three-word pixel, count <= 2: count * 3 latches of the right words (uniform and non-uniform pixels)
#[kani::proof]
#[kani::unwind(8)]
fn c07_send_repeated_pixel_3word_bounded() {
    let levels: u8 = kani::any();
    let p = Port::new(levels as u16);
    let mut bus = bus8(&p);
    bus.last = if kani::any() { Some(levels) } else { None };
    let mut pi = ParallelInterface::new(bus, DcPin(&p), WrPin(&p));
    let px: [u8; 3] = kani::any();
    let count: u32 = kani::any();
    kani::assume(count <= 2);
    assert!(pi.send_repeated_pixel(px, count).is_ok());
    kani::assert(p.n_latched.get() == 3 * count as usize, "C07: number of words for a repeated three-word pixel");
    let l = p.latched.get();
    let i: usize = kani::any();
    kani::assume(i < 3 * count as usize);
    kani::assert(l[i] == px[i % 3] as u16, "C07: C05: repeated three-word pixel words");
    kani::cover!(px[0] == px[2] && px[0] != px[1] && count == 2);
    kani::cover!(px[0] == px[1] && px[1] == px[2] && count == 2);
}

/// two calls in a row on one interface (state carried between calls: bus cache, anything a change adds): the words latched
/// by the second call are its own, whatever the first call was
#[kani::proof]
#[kani::unwind(6)]
fn c07_call_sequence_bounded() {
    let levels: u8 = kani::any();
    let p = Port::new(levels as u16);
    let mut bus = bus8(&p);
    bus.last = if kani::any() { Some(levels) } else { None };
    let mut pi = ParallelInterface::new(bus, DcPin(&p), WrPin(&p));
    let mut step = 0;
    while step < 2 {
        let n0 = p.n_latched.get();
        let px: [u8; 2] = kani::any();
        if kani::any() {
            assert!(pi.send_repeated_pixel(px, 1).is_ok());
        } else if kani::any() {
            assert!(pi.send_pixels([px]).is_ok());
        } else {
            assert!(pi.send_command(px[0], &[px[1]]).is_ok());
        }
        let l = p.latched.get();
        kani::assert(p.n_latched.get() == n0 + 2 && l[n0] == px[0] as u16 && l[n0 + 1] == px[1] as u16, "C07: C05: words of a call that follows another call");
        step += 1;
    }
}

/// repeated pixel, count <= 2, N = 2 (all-same words take the strobe-only path): count*N latches of the right words
#[kani::proof]
#[kani::unwind(6)]
fn c07_send_repeated_pixel_bounded() {
    let levels: u8 = kani::any();
    let p = Port::new(levels as u16);
    let mut bus = bus8(&p);
    bus.last = if kani::any() { Some(levels) } else { None };
    let mut pi = ParallelInterface::new(bus, DcPin(&p), WrPin(&p));
    let px: [u8; 2] = kani::any();
    let count: u32 = kani::any();
    kani::assume(count <= 2);
    assert!(pi.send_repeated_pixel(px, count).is_ok());
    kani::assert(p.n_latched.get() == 2 * count as usize, "C07: number of words for a repeated pixel");
    let l = p.latched.get();
    let i: usize = kani::any();
    kani::assume(i < 2 * count as usize);
    kani::assert(l[i] == px[i % 2] as u16, "C07: repeated pixel words");
    kani::cover!(px[0] == px[1] && count == 2);
    kani::cover!(px[0] != px[1] && count == 2);
}

/// is_same: Some(w) iff all words equal (the contract the Verus proof of send_repeated_pixel relies on), N in 1..3
#[kani::proof]
#[kani::unwind(4)]
fn c07_is_same_contract() {
    let a1: [u8; 1] = kani::any();
    kani::assert(is_same(a1) == Some(a1[0]), "C07: C05: is_same on one word");
    let a2: [u8; 2] = kani::any();
    let which: u8 = kani::any();
    if which == 0 { kani::assert(is_same(a2) == if a2[0] == a2[1] { Some(a2[0]) } else { None }, "C07: C05: is_same must be Some only if all words are equal (N=2)"); }
    let a3: [u16; 3] = kani::any();
    if which == 1 { kani::assert(is_same(a3) == if a3[0] == a3[1] && a3[1] == a3[2] { Some(a3[0]) } else { None }, "C07: C05: is_same must be Some only if all words are equal (N=3)"); }
    let a0: [u8; 0] = [];
    kani::assert(is_same(a0).is_none(), "C07: is_same on an empty pixel");
}

/// the strobe count of a repeated all-same-word pixel must not overflow (count * N >= 2^32); concrete input
#[kani::proof]
#[kani::unwind(2)]
fn c07_repeat_count_no_overflow() {
    let p = Port::new(0);
    let bus = bus8(&p);
    let mut pi = ParallelInterface::new(bus, DcPin(&p), WrPin(&p));
    // fail the 3rd low-level operation (first bare strobe) so that the call returns right after the product is computed
    p.clock.fail_at.set(10);
    let r = pi.send_repeated_pixel([0x55u8, 0x55u8], 0x8000_0000);
    kani::assert(r.is_err(), "C07: expected the injected strobe failure");
}
