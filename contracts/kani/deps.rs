//! Dependency-contract audit: every contract that contracts/prelude.rs *assumes* about core, embedded-graphics-core and
//! heapless (`assume_specification`, `external_body` wrappers, axioms) has a twin harness here that asserts the same formula
//! on the REAL dependency code as compiled into the crate.  A loop-free harness over `kani::any()` is a complete proof of the
//! assumed contract for the instantiated types; harnesses that need an unwinding bound are bounded stand-ins (bound stated in
//! tools/props.py).  The correspondence "Verus formula <-> Kani assertion" is by inspection: the Verus text is quoted above
//! each harness.  Mounted as `crate::vk_deps` in the scratch copy under cfg(kani).
#![allow(dead_code, unused_imports)]
extern crate std;

use embedded_graphics_core::geometry::{Dimensions, OriginDimensions, Point, Size};
use embedded_graphics_core::primitives::Rectangle;

// ------------------------------------------------------------------------------------------- e-g geometry
fn rect_valid(r: &Rectangle) -> bool {
    r.size.width <= 0x7fff_ffff && r.size.height <= 0x7fff_ffff
        && r.top_left.x as i64 + r.size.width as i64 <= 0x7fff_ffff && r.top_left.y as i64 + r.size.height as i64 <= 0x7fff_ffff
}
fn nonempty(r: &Rectangle) -> bool { r.size.width > 0 && r.size.height > 0 }
fn right(r: &Rectangle) -> i64 { r.top_left.x as i64 + r.size.width as i64 - 1 }
fn bottom(r: &Rectangle) -> i64 { r.top_left.y as i64 + r.size.height as i64 - 1 }
fn contains(r: &Rectangle, x: i64, y: i64) -> bool { r.top_left.x as i64 <= x && x <= right(r) && r.top_left.y as i64 <= y && y <= bottom(r) }
fn overlap(a: &Rectangle, b: &Rectangle) -> bool {
    nonempty(a) && nonempty(b)
        && core::cmp::max(a.top_left.x as i64, b.top_left.x as i64) <= core::cmp::min(right(a), right(b))
        && core::cmp::max(a.top_left.y as i64, b.top_left.y as i64) <= core::cmp::min(bottom(a), bottom(b))
}
fn any_rect() -> Rectangle {
    Rectangle { top_left: Point { x: kani::any(), y: kani::any() }, size: Size { width: kani::any(), height: kani::any() } }
}

/// prelude: `assume_specification [Rectangle::intersection]` - requires rect_valid(a), rect_valid(b); ensures rect_valid(r);
/// overlap ==> r non-empty with top_left = max of the top-lefts, right/bottom = min of the rights/bottoms; !overlap ==> r empty;
/// overlap && a inside b ==> r == a.   Complete: all i32 x u32 rectangles.
#[kani::proof]
fn dep_rect_intersection() {
    let a = any_rect();
    let b = any_rect();
    kani::assume(rect_valid(&a) && rect_valid(&b));
    let r = a.intersection(&b);
    kani::assert(rect_valid(&r), "dep: intersection result is a valid rectangle");
    if overlap(&a, &b) {
        kani::assert(nonempty(&r), "dep: overlapping rectangles have a non-empty intersection");
        kani::assert(r.top_left.x as i64 == core::cmp::max(a.top_left.x as i64, b.top_left.x as i64), "dep: intersection left edge");
        kani::assert(r.top_left.y as i64 == core::cmp::max(a.top_left.y as i64, b.top_left.y as i64), "dep: intersection top edge");
        kani::assert(right(&r) == core::cmp::min(right(&a), right(&b)), "dep: intersection right edge");
        kani::assert(bottom(&r) == core::cmp::min(bottom(&a), bottom(&b)), "dep: intersection bottom edge");
        if contains(&b, a.top_left.x as i64, a.top_left.y as i64) && contains(&b, right(&a), bottom(&a)) {
            kani::assert(r == a, "dep: intersection with an enclosing rectangle is the rectangle itself");
        }
    } else {
        kani::assert(!nonempty(&r), "dep: disjoint or empty rectangles have an empty intersection");
    }
    kani::cover!(overlap(&a, &b) && r != a && r != b);
    kani::cover!(!overlap(&a, &b) && nonempty(&a) && nonempty(&b));
}

/// prelude: `Rectangle::bottom_right` - non-empty ==> Some(Point{right, bottom}); empty ==> None.
/// prelude: `Rectangle::contains` - r == rect_contains(a, p.x, p.y).   Complete.
#[kani::proof]
fn dep_rect_bottom_right_contains() {
    let a = any_rect();
    kani::assume(rect_valid(&a));
    match a.bottom_right() {
        Some(p) => kani::assert(nonempty(&a) && p.x as i64 == right(&a) && p.y as i64 == bottom(&a), "dep: bottom_right of a non-empty rectangle"),
        None => kani::assert(!nonempty(&a), "dep: bottom_right is None only for empty rectangles"),
    }
    let p = Point { x: kani::any(), y: kani::any() };
    kani::assert(a.contains(p) == contains(&a, p.x as i64, p.y as i64), "dep: Rectangle::contains is the closed-interval test");
    kani::cover!(a.contains(p));
}

/// prelude: `Size::new`, `<Rectangle as PartialEq>::eq` (field-wise), `bounding_box` of an OriginDimensions value
/// (`Rectangle { top_left: (0,0), size: s.size() }`).   Complete.
struct Dim(Size);
impl OriginDimensions for Dim { fn size(&self) -> Size { self.0 } }
#[kani::proof]
fn dep_size_eq_bounding_box() {
    let (w, h): (u32, u32) = (kani::any(), kani::any());
    let s = Size::new(w, h);
    kani::assert(s.width == w && s.height == h, "dep: Size::new stores width and height");
    let a = any_rect();
    let b = any_rect();
    let fieldwise = a.top_left.x == b.top_left.x && a.top_left.y == b.top_left.y && a.size.width == b.size.width && a.size.height == b.size.height;
    kani::assert((a == b) == fieldwise, "dep: Rectangle equality is field-wise");
    let bb = Dim(s).bounding_box();
    kani::assert(bb.top_left.x == 0 && bb.top_left.y == 0 && bb.size.width == w && bb.size.height == h, "dep: bounding_box of OriginDimensions");
}

// ------------------------------------------------------------------------------------------- core integer helpers
/// prelude: u16/u32/i32 `abs_diff`, `i32::unsigned_abs`, `Result::and`,
/// `cmp::min` (R16), u32 -> usize `try_into().unwrap()` (R24), `u16::to_be_bytes` (R11).   Complete.
#[kani::proof]
fn dep_core_integer_helpers() {
    let (a, b): (u16, u16) = (kani::any(), kani::any());
    kani::assert(a.abs_diff(b) as i64 == (a as i64 - b as i64).abs(), "dep: u16::abs_diff");
    let (a, b): (u32, u32) = (kani::any(), kani::any());
    kani::assert(a.abs_diff(b) as i64 == (a as i64 - b as i64).abs(), "dep: u32::abs_diff");
    kani::assert(core::cmp::min(a, b) == if a <= b { a } else { b }, "dep: cmp::min");
    let n: usize = a.try_into().unwrap();
    kani::assert(n as u64 == a as u64, "dep: u32 -> usize conversion is exact");
    let (a, b): (i32, i32) = (kani::any(), kani::any());
    kani::assert(a.abs_diff(b) as i64 == (a as i64 - b as i64).abs(), "dep: i32::abs_diff");
    kani::assert(a.unsigned_abs() as i64 == (a as i64).abs(), "dep: i32::unsigned_abs");
    let v: u16 = kani::any();
    let be = v.to_be_bytes();
    kani::assert(be[0] as u16 == v >> 8 && be[1] as u16 == v & 0xff, "dep: u16::to_be_bytes");
    let (x, y): (Result<u8, u8>, Result<u16, u8>) = (kani::any(), kani::any());
    let want = match x { Ok(_) => y, Err(e) => Err(e) };
    kani::assert(x.and(y) == want, "dep: Result::and keeps the first error");
}

/// prelude: `i32::rem_euclid` - for b > 0 the mathematical modulus.  Discharged for the divisors the crate uses (360, and 90
/// for good measure) over all i32 dividends; for other divisors the contract stays an assumption.   Complete for b in {90, 360}.
#[kani::proof]
fn dep_rem_euclid_360() {
    let a: i32 = kani::any();
    let b: i32 = if kani::any() { 360 } else { 90 };
    let r = a.rem_euclid(b) as i64;
    let q = (a as i64 - r) / (b as i64);
    kani::assert(r >= 0 && r < b as i64 && q * (b as i64) + r == a as i64, "dep: i32::rem_euclid is the mathematical modulus");
}

// ------------------------------------------------------------------------------------------- core iterators
/// an arbitrary finite stream of at most 4 small values (the "lawful finite stream" the Verus contracts quantify over,
/// instantiated; fused)
struct Script { items: [u8; 4], len: usize, pos: usize }
impl Iterator for Script {
    type Item = u8;
    fn next(&mut self) -> Option<u8> {
        if self.pos < self.len { let v = self.items[self.pos]; self.pos += 1; Some(v) } else { None }
    }
}
fn any_script() -> Script {
    let len: usize = kani::any();
    kani::assume(len <= 4);
    Script { items: kani::any(), len, pos: 0 }
}

/// prelude: `core::iter::once` yields exactly `[v]`; array by-value iterator (`array_into_iter`) yields the elements in
/// order and ends; `repeat_n` = `(0..count).map(|_| v)` yields `count` copies (bounded: count <= 4).
#[kani::proof]
#[kani::unwind(6)]
fn dep_once_array_repeat() {
    let v: u16 = kani::any();
    let mut o = core::iter::once(v);
    kani::assert(o.next() == Some(v) && o.next().is_none(), "dep: once yields its value exactly once");
    let a: [u8; 3] = kani::any();
    let mut it = a.into_iter();
    kani::assert(it.next() == Some(a[0]) && it.next() == Some(a[1]) && it.next() == Some(a[2]) && it.next().is_none(), "dep: array by-value iterator yields the elements in order");
    let count: u32 = kani::any();
    kani::assume(count <= 4);
    let mut n = 0u32;
    for x in (0..count).map(move |_| v) {
        kani::assert(x == v, "dep: (0..count).map(const) yields the constant");
        n += 1;
    }
    kani::assert(n == count, "dep: (0..count).map(const) yields count items");
}

/// prelude: `map_lawful` (A-map: f applied to every item in order, ends with the source), `filter_lawful` (A-filter: exactly
/// the items satisfying the predicate, in order), vstd's `Iterator::take`, A-nth (`nth(n)` through `&mut` consumes n + 1
/// items and returns item n, or exhausts the stream), A-yields (`into_iter` of an iterator is the identity).
/// Bounded: streams of at most 4 items.
#[kani::proof]
#[kani::unwind(7)]
fn dep_iterator_adapters() {
    let s = any_script();
    let (items, len) = (s.items, s.len);
    let which: u8 = kani::any();
    if which == 0 {
        let mut k = 0usize;
        for y in s.into_iter().map(|x| (x as u16) * 3 + 1) {
            kani::assert(k < len && y == (items[k] as u16) * 3 + 1, "dep: map applies f to item k in order");
            k += 1;
        }
        kani::assert(k == len, "dep: map ends with the source");
    } else if which == 1 {
        let t: u8 = kani::any();
        let mut k = 0usize;   // index into the source of the next candidate
        for y in s.filter(|x| *x >= t) {
            while k < len && items[k] < t { k += 1; }
            kani::assert(k < len && y == items[k], "dep: filter yields exactly the items satisfying the predicate, in order");
            k += 1;
        }
        while k < len && items[k] < t { k += 1; }
        kani::assert(k == len, "dep: filter drops nothing that satisfies the predicate");
        kani::cover!(len == 4 && items[0] < t && items[1] >= t && items[3] < t);
    } else if which == 2 {
        let n: usize = kani::any();
        kani::assume(n <= 6);
        let mut k = 0usize;
        for y in s.take(n) {
            kani::assert(k < len && k < n && y == items[k], "dep: take yields the first items in order");
            k += 1;
        }
        kani::assert(k == core::cmp::min(n, len), "dep: take yields min(n, len) items");
    } else {
        let n: usize = kani::any();
        kani::assume(n <= 6);
        let mut s = s;
        let r = (&mut s).nth(n);
        kani::cover!(n == 2 && len == 4);
        if n < len {
            kani::assert(r == Some(items[n]) && s.pos == n + 1, "dep: nth(n) returns item n and leaves the stream after it");
        } else {
            kani::assert(r.is_none() && s.pos == len, "dep: nth beyond the end exhausts the stream");
        }
    }
}

/// prelude: `<[T]>::chunks_exact_mut` - len/n chunks, chunk i aliases s[i*n .. i*n+n], writes through the chunks are what
/// the slice holds afterwards, the tail beyond the last whole chunk is untouched; R15 `chunk.try_into().unwrap()` for a
/// chunk of the right length is the same memory.  Bounded: slice length <= 7, n in 1..=3.
#[kani::proof]
#[kani::unwind(9)]
fn dep_chunks_exact_mut() {
    let mut buf: [u8; 7] = kani::any();
    let old = buf;
    let len: usize = kani::any();
    kani::assume(len <= 7);
    let n: usize = kani::any();
    kani::assume(n >= 1 && n <= 3);
    let mut i = 0usize;
    for chunk in buf[..len].chunks_exact_mut(n) {
        kani::assert(chunk.len() == n, "dep: every chunk has n items");
        let mut j = 0;
        while j < n {
            kani::assert(chunk[j] == old[i * n + j], "dep: chunk i aliases s[i*n + j]");
            chunk[j] = (i * 16 + j) as u8 ^ 0xa5;
            j += 1;
        }
        if n == 2 {
            let arr: &mut [u8; 2] = chunk.try_into().unwrap();
            kani::assert(arr[0] == (i * 16) as u8 ^ 0xa5, "dep: try_into for &mut [T; N] is the same memory");
        }
        i += 1;
    }
    kani::assert(i == len / n, "dep: len / n chunks");
    kani::cover!(i == 3 && len == 7);
    let k: usize = kani::any();
    kani::assume(k < 7);
    if k < (len / n) * n {
        kani::assert(buf[k] == ((k / n) * 16 + k % n) as u8 ^ 0xa5, "dep: what was written through chunk k/n is what the slice holds");
    } else {
        kani::assert(buf[k] == old[k], "dep: the tail beyond the last whole chunk is untouched");
    }
}

// ------------------------------------------------------------------------------------------- heapless::Vec
/// prelude: heapless 0.8 `Vec::{new, push, extend_from_slice, clear, clone, is_full, capacity, deref, into_iter}` against the
/// sequence view `hv`: new is empty; push appends when len < N and otherwise returns the item and changes nothing;
/// extend_from_slice appends everything or nothing; clear empties; clone has the same contents; is_full <=> len == N;
/// capacity == N; deref / into_iter expose exactly the contents in order.  Bounded in the capacity: N = 4 (the code is generic in N).
#[cfg(feature = "batch")]   // heapless is a dependency of the `batch` feature only
#[kani::proof]
#[kani::unwind(8)]
fn dep_heapless_vec() {
    const N: usize = 4;
    let mut v: heapless::Vec<u16, N> = heapless::Vec::new();
    kani::assert(v.len() == 0 && v.capacity() == N && !v.is_full(), "dep: new heapless vector is empty with capacity N");
    // bring it to an arbitrary state by an arbitrary prefix
    let init: [u16; N] = kani::any();
    let l0: usize = kani::any();
    kani::assume(l0 <= N);
    kani::assert(v.extend_from_slice(&init[..l0]).is_ok(), "dep: extend_from_slice that fits succeeds");
    kani::assert(v.len() == l0 && v.is_full() == (l0 == N), "dep: is_full <=> len == N");
    let which: u8 = kani::any();
    if which == 0 {
        let x: u16 = kani::any();
        let r = v.push(x);
        if l0 < N {
            kani::assert(r.is_ok() && v.len() == l0 + 1 && v[l0] == x, "dep: push appends when there is room");
        } else {
            kani::assert(r == Err(x) && v.len() == l0, "dep: push on a full vector returns the item and changes nothing");
        }
        kani::cover!(l0 == N);
        kani::cover!(l0 == 2);
        let k: usize = kani::any();
        kani::assume(k < l0);
        kani::assert(v[k] == init[k], "dep: push leaves the earlier items alone");
    } else if which == 1 {
        let more: [u16; 3] = kani::any();
        let m: usize = kani::any();
        kani::assume(m <= 3);
        let r = v.extend_from_slice(&more[..m]);
        if l0 + m <= N {
            kani::assert(r.is_ok() && v.len() == l0 + m, "dep: extend_from_slice appends everything when it fits");
            let k: usize = kani::any();
            kani::assume(k < l0 + m);
            kani::assert(v[k] == if k < l0 { init[k] } else { more[k - l0] }, "dep: extend_from_slice appends in order");
        } else {
            kani::assert(r.is_err() && v.len() == l0, "dep: extend_from_slice that does not fit changes nothing");
            kani::cover!(l0 == 2 && m == 3);
            let k: usize = kani::any();
            kani::assume(k < l0);
            kani::assert(v[k] == init[k], "dep: a refused extend_from_slice leaves the contents alone");
        }
    } else if which == 2 {
        let c = v.clone();
        kani::assert(c.len() == l0, "dep: clone has the same length");
        let s: &[u16] = &c;
        let k: usize = kani::any();
        kani::assume(k < l0);
        kani::assert(s[k] == init[k] && s.len() == l0, "dep: clone / deref expose the same contents");
        v.clear();
        kani::assert(v.len() == 0 && c.len() == l0, "dep: clear empties the vector (and not its clone)");
    } else {
        let mut k = 0usize;
        for x in v {
            kani::assert(k < l0 && x == init[k], "dep: into_iter yields the contents in order");
            k += 1;
        }
        kani::assert(k == l0, "dep: into_iter yields every item");
    }
}
