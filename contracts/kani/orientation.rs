//! C15 harnesses (child of options::orientation).
extern crate std;
#[allow(unused_imports)]
use std::{vec, vec::Vec};
use super::*;
#[allow(unused_imports)]
use crate::options::{Orientation, Rotation};
use crate::vk_support::*;

fn deg(r: Rotation) -> i64 {
    match r { Rotation::Deg0 => 0, Rotation::Deg90 => 90, Rotation::Deg180 => 180, Rotation::Deg270 => 270 }
}

/// all 2^32 angles: Ok iff multiple of 90, result congruent mod 360, no overflow/panic.  The function is loop-free today; the
/// unwinding bound only makes a change that introduces a loop end in a verdict (or an unwinding failure) instead of a time-out
#[kani::proof]
#[kani::unwind(40)]
fn c15_try_from_degree_all_i32() {
    let a: i32 = kani::any();
    let r = Rotation::try_from_degree(a);
    let m90 = (a as i64).rem_euclid(90) == 0;
    assert!(r.is_ok() == m90);
    if let Ok(rot) = r {
        assert!(deg(rot) == (a as i64).rem_euclid(360));
        assert!(rot.degree() as i64 == deg(rot));
    }
    kani::cover!(a == i32::MIN);
    kani::cover!(a == -90);
}

fn lsize(o: Orientation, w: i64, h: i64) -> (i64, i64) {
    if o.rotation.is_vertical() { (h, w) } else { (w, h) }
}
fn rot_cw(r: Rotation, lw: i64, lh: i64, x: i64, y: i64) -> (i64, i64) {
    match r {
        Rotation::Deg0 => (x, y),
        Rotation::Deg90 => (lh - 1 - y, x),
        Rotation::Deg180 => (lw - 1 - x, lh - 1 - y),
        Rotation::Deg270 => (y, lw - 1 - x),
    }
}

/// rotate / flips mean "pre-rotated clockwise" / "pre-mirrored" for every size and point
#[kani::proof]
fn c15_rotate_flip_geometry() {
    let o = any_orientation();
    let r = any_rotation();
    let w: u16 = kani::any();
    let h: u16 = kani::any();
    kani::assume(w >= 1 && h >= 1);
    let (w, h) = (w as i64, h as i64);
    let x: u16 = kani::any();
    let y: u16 = kani::any();
    let (x, y) = (x as i64, y as i64);
    // rotation
    let o2 = o.rotate(r);
    let (lw2, lh2) = lsize(o2, w, h);
    if x < lw2 && y < lh2 {
        let q = rot_cw(r, lw2, lh2, x, y);
        let (lw, lh) = lsize(o, w, h);
        assert!(0 <= q.0 && q.0 < lw && 0 <= q.1 && q.1 < lh);
        assert!(oracle_panel_cell(o2, w, h, x, y) == oracle_panel_cell(o, w, h, q.0, q.1));
    }
    // flips
    let (lw, lh) = lsize(o, w, h);
    if x < lw && y < lh {
        let fh = o.flip_horizontal();
        let fv = o.flip_vertical();
        assert!(lsize(fh, w, h) == (lw, lh) && lsize(fv, w, h) == (lw, lh));
        assert!(oracle_panel_cell(fh, w, h, x, y) == oracle_panel_cell(o, w, h, lw - 1 - x, y));
        assert!(oracle_panel_cell(fv, w, h, x, y) == oracle_panel_cell(o, w, h, x, lh - 1 - y));
    }
    kani::cover!(x < lw && y < lh && w != h);
}

#[kani::proof]
fn c15_group_laws() {
    let o = any_orientation();
    let r1 = any_rotation();
    let r2 = any_rotation();
    let q = Rotation::Deg90;
    assert!(o.rotate(q).rotate(q).rotate(q).rotate(q) == o);
    assert!(o.flip_horizontal().flip_horizontal() == o);
    assert!(o.flip_vertical().flip_vertical() == o);
    assert!(o.flip_horizontal().flip_vertical() == o.rotate(Rotation::Deg180));
    assert!(o.flip_vertical().flip_horizontal() == o.rotate(Rotation::Deg180));
    assert!(o.rotate(r1).rotate(r2) == o.rotate(r1.rotate(r2)));
    assert!(deg(r1.rotate(r2)) == (deg(r1) + deg(r2)) % 360);
    assert!(r1.is_horizontal() != r1.is_vertical());
    assert!(r1.is_vertical() == (deg(r1) == 90 || deg(r1) == 270));
    assert!(Orientation::new() == Orientation { rotation: Rotation::Deg0, mirrored: false });
    assert!(Orientation::default() == Orientation::new());
}
