//! C14 harnesses (child of dcs::set_address_mode: sees the private byte).
extern crate std;
#[allow(unused_imports)]
use std::{vec, vec::Vec};
use super::*;
#[allow(unused_imports)]
use crate::options::{ColorOrder, MemoryMapping, ModelOptions, Orientation, RefreshOrder};
#[allow(unused_imports)]
use crate::dcs::DcsCommand;
use crate::vk_support::*;

/// all 2 x 8 x 4 inputs through `new`, `From<&ModelOptions>` and the setter chain: exact MIPI byte
#[kani::proof]
fn c14_madctl_all_inputs() {
    let c = any_color_order();
    let o = any_orientation();
    let r = any_refresh();
    let want = oracle_madctl(c, o, r);
    assert!(SetAddressMode::new(c, o, r).0 == want);
    let mut opts = ModelOptions::with_all((1, 1), (0, 0));
    opts.color_order = c;
    opts.orientation = o;
    opts.refresh_order = r;
    assert!(SetAddressMode::from(&opts).0 == want);
    assert!(want & 0x03 == 0);
    assert!(SetAddressMode::default().0 == 0);
    let m = MemoryMapping::from_orientation(o);
    assert!((m.reverse_rows, m.reverse_columns, m.swap_rows_and_columns) == oracle_mapping(o));
    kani::cover!(want == 0xFC);
}

/// any start byte, every order of the three setters: same result, foreign bits untouched
#[kani::proof]
fn c14_setters_any_start_any_order() {
    let b: u8 = kani::any();
    let s = SetAddressMode(b);
    let c = any_color_order();
    let o = any_orientation();
    let r = any_refresh();
    let want = (b & 0x03) | oracle_madctl(c, o, r);
    assert!(s.with_color_order(c).with_orientation(o).with_refresh_order(r).0 == want);
    assert!(s.with_color_order(c).with_refresh_order(r).with_orientation(o).0 == want);
    assert!(s.with_orientation(o).with_color_order(c).with_refresh_order(r).0 == want);
    assert!(s.with_orientation(o).with_refresh_order(r).with_color_order(c).0 == want);
    assert!(s.with_refresh_order(r).with_color_order(c).with_orientation(o).0 == want);
    assert!(s.with_refresh_order(r).with_orientation(o).with_color_order(c).0 == want);
    assert!(s.with_color_order(c).0 & !0x08 == b & !0x08);
    assert!(s.with_orientation(o).0 & !0xE0 == b & !0xE0);
    assert!(s.with_refresh_order(r).0 & !0x14 == b & !0x14);
    kani::cover!(b == 0xFF);
}

#[kani::proof]
fn c14_fill_params() {
    let b: u8 = kani::any();
    let s = SetAddressMode(b);
    let mut buf: [u8; 16] = kani::any();
    let old = buf;
    assert!(s.instruction() == 0x36);
    assert!(s.fill_params_buf(&mut buf) == 1);
    assert!(buf[0] == b);
    let i: usize = kani::any();
    kani::assume(i >= 1 && i < 16);
    assert!(buf[i] == old[i]);
}
