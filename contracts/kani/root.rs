//! Display-level harnesses (child module of the crate root: sees `Display`'s private fields).
extern crate std;
#[allow(unused_imports)]
use std::{vec, vec::Vec};
use crate::vk_support::*;
use crate::{dcs, options, Display};
#[allow(unused_imports)]
use embedded_hal::digital::OutputPin;

type Disp<'a, const W: u16, const H: u16> = Display<RecIface<'a, u8, 0>, FbModel<W, H>, MockPin<'a>>;

/// Any display `Builder::init` can produce for this framebuffer: built through the public builder API (so the harness
/// does not depend on `Display`'s private layout); the recording interface is reset afterwards (`base` = 0).
fn any_display<'a, const W: u16, const H: u16>(clock: &'a Clock) -> Disp<'a, W, H> {
    let o = any_valid_options(W, H);
    let r = crate::Builder::new(FbModel::<W, H>, RecIface::new(clock))
        .reset_pin(MockPin::new(clock))
        .color_order(o.color_order)
        .orientation(o.orientation)
        .invert_colors(o.invert_colors)
        .refresh_order(o.refresh_order)
        .display_size(o.display_size.0, o.display_size.1)
        .display_offset(o.display_offset.0, o.display_offset.1)
        .init(&mut MockDelay(clock));
    let mut d = match r { Ok(d) => d, Err(_) => { kani::assume(false); unreachable!() } };
    // forget the initialisation traffic: harnesses count from here
    d.di = RecIface::new(clock);
    clock.ops.set(0);
    d
}

// ---------------------------------------------------------------------------------------------- C16
fn c16_region<const W: u16, const H: u16>() {
    let clock = Clock::new();
    let mut d = any_display::<W, H>(&clock);
    let top: u16 = kani::any();
    let bottom: u16 = kani::any();
    let r = d.set_vertical_scroll_region(top, bottom);
    assert!(r.is_ok());
    assert!(d.di.ncmd == 1 && d.di.px_calls == 0);
    let c = d.di.cmd(0);
    assert!(c.op == 0x33 && c.len == 6);
    let tfa = u16::from_be_bytes([c.p[0], c.p[1]]) as u32;
    let vsa = u16::from_be_bytes([c.p[2], c.p[3]]) as u32;
    let bfa = u16::from_be_bytes([c.p[4], c.p[5]]) as u32;
    assert!(tfa + vsa + bfa == H as u32);
    if top as u32 + bottom as u32 <= H as u32 {
        assert!(tfa == top as u32 && bfa == bottom as u32);
    }
}
#[kani::proof]
fn c16_region_h1() { c16_region::<1, 1>() }
#[kani::proof]
fn c16_region_h160() { c16_region::<128, 160>() }
#[kani::proof]
fn c16_region_h320() { c16_region::<240, 320>() }
#[kani::proof]
fn c16_region_h480() { c16_region::<320, 480>() }
#[kani::proof]
fn c16_region_h536() { c16_region::<240, 536>() }
#[kani::proof]
fn c16_region_h65535() { c16_region::<65535, 65535>() }

#[kani::proof]
fn c16_offset() {
    let clock = Clock::new();
    let mut d = any_display::<240, 320>(&clock);
    let off: u16 = kani::any();
    let r = d.set_vertical_scroll_offset(off);
    assert!(r.is_ok());
    assert!(d.di.ncmd == 1 && d.di.px_calls == 0);
    let c = d.di.cmd(0);
    assert!(c.op == 0x37 && c.len == 2 && c.p[0] == (off >> 8) as u8 && c.p[1] == (off & 0xff) as u8);
}

// ---------------------------------------------------------------------------------------- C01 / C10
use embedded_graphics_core::geometry::{Dimensions, OriginDimensions};
use embedded_graphics_core::pixelcolor::{raw::RawU16, Rgb565};
use embedded_graphics_core::prelude::RawData;

fn any_color() -> Rgb565 {
    Rgb565::from(RawU16::new(kani::any()))
}

/// decode the three commands of a one-window burst recorded at positions i..i+3
fn window_at<const W: u16, const H: u16>(d: &Disp<W, H>, i: usize) -> (u16, u16, u16, u16) {
    let (c, r, m) = (d.di.cmd(i), d.di.cmd(i + 1), d.di.cmd(i + 2));
    assert!(c.op == 0x2A && c.len == 4 && r.op == 0x2B && r.len == 4 && m.op == 0x2C && m.len == 0);
    (u16::from_be_bytes([c.p[0], c.p[1]]), u16::from_be_bytes([r.p[0], r.p[1]]),
     u16::from_be_bytes([c.p[2], c.p[3]]), u16::from_be_bytes([r.p[2], r.p[3]]))
}

/// the cell the controller writes for address (c, r) must be the cell the statement names for (x, y)
fn assert_lands<const W: u16, const H: u16>(d: &Disp<W, H>, madctl: u8, c: u16, r: u16, x: u16, y: u16) {
    let o = d.options.orientation;
    let (w, h) = (d.options.display_size.0 as i64, d.options.display_size.1 as i64);
    let (ox, oy) = (d.options.display_offset.0 as i64, d.options.display_offset.1 as i64);
    let pc = oracle_panel_cell(o, w, h, x as i64, y as i64);
    let got = oracle_ctrl_phys(madctl, W as i64, H as i64, c as i64, r as i64);
    assert!(got == (ox + pc.0, oy + pc.1));
    assert!(0 <= got.0 && got.0 < W as i64 && 0 <= got.1 && got.1 < H as i64);
}

fn c01_set_pixel<const W: u16, const H: u16>() {
    let clock = Clock::new();
    let mut d = any_display::<W, H>(&clock);
    let madctl = oracle_madctl(d.options.color_order, d.options.orientation, d.options.refresh_order);
    let (lw, lh) = oracle_logical_size(d.options.orientation, d.options.display_size.0, d.options.display_size.1);
    let (x, y): (u16, u16) = (kani::any(), kani::any());
    kani::assume(x < lw && y < lh);
    assert!(d.set_pixel(x, y, any_color()).is_ok());
    assert!(d.di.ncmd == 3 && d.di.px_calls == 1 && d.di.px_count == 1 && d.di.px_after_cmds == 3);
    let (sc, sr, ec, er) = window_at(&d, 0);
    assert!(sc == ec && sr == er);
    assert_lands(&d, madctl, sc, sr, x, y);
    kani::cover!(x + 1 == lw && y + 1 == lh);
}
#[kani::proof]
fn c01_set_pixel_1x1() { c01_set_pixel::<1, 1>() }
#[kani::proof]
fn c01_set_pixel_240x320() { c01_set_pixel::<240, 320>() }
#[kani::proof]
fn c01_set_pixel_320x240() { c01_set_pixel::<320, 240>() }
#[kani::proof]
fn c01_set_pixel_max() { c01_set_pixel::<65535, 65535>() }

/// C10: after set_orientation everything observable agrees with the new orientation
fn c10_set_orientation<const W: u16, const H: u16>() {
    let clock = Clock::new();
    let mut d = any_display::<W, H>(&clock);
    let before = d.options.clone();
    let o2 = any_orientation();
    assert!(d.set_orientation(o2).is_ok());
    // bus: exactly one MADCTL with the encoding of (old colour order, new orientation, old refresh order)
    let want = oracle_madctl(before.color_order, o2, before.refresh_order);
    let c = d.di.cmd(0);
    assert!(d.di.ncmd == 1 && c.op == 0x36 && c.len == 1 && c.p[0] == want);
    // reported state
    assert!(d.orientation() == o2);
    let (lw, lh) = oracle_logical_size(o2, before.display_size.0, before.display_size.1);
    assert!(d.size().width == lw as u32 && d.size().height == lh as u32);
    assert!(d.bounding_box().size == d.size());
    // same driver state as a display built with o2
    let mut fresh = before.clone();
    fresh.orientation = o2;
    assert!(d.madctl == dcs::SetAddressMode::from(&fresh));
    assert!(d.options.display_size == before.display_size && d.options.display_offset == before.display_offset);
    assert!(d.options.color_order == before.color_order && d.options.refresh_order == before.refresh_order);
    // placement of subsequent drawing
    let (x, y): (u16, u16) = (kani::any(), kani::any());
    kani::assume(x < lw && y < lh);
    assert!(d.set_pixel(x, y, any_color()).is_ok());
    let (sc, sr, ec, er) = window_at(&d, 1);
    assert!(sc == ec && sr == er);
    assert_lands(&d, want, sc, sr, x, y);
    kani::cover!(o2 != before.orientation);
}
#[kani::proof]
fn c10_set_orientation_240x320() { c10_set_orientation::<240, 320>() }
#[kani::proof]
fn c10_set_orientation_max() { c10_set_orientation::<65535, 65535>() }

// ---------------------------------------------------------------------------------------------- C13
type CDisp<'a> = Display<CtrlMock<'a, 0>, FbModel<240, 320>, MockPin<'a>>;

/// any display whose flag agrees with the controller (the invariant), any time since the last sleep command >= 120 ms
fn any_consistent<'a>(clock: &'a Clock) -> CDisp<'a> {
    let o = any_valid_options(240, 320);
    let r = crate::Builder::new(FbModel::<240, 320>, CtrlMock::<0>::new(clock))
        .reset_pin(MockPin::new(clock))
        .orientation(o.orientation)
        .display_size(o.display_size.0, o.display_size.1)
        .display_offset(o.display_offset.0, o.display_offset.1)
        .init(&mut MockDelay(clock));
    let mut d = match r { Ok(d) => d, Err(_) => { kani::assume(false); unreachable!() } };
    // any state in which flag and controller agree (the invariant), any time >= 120 ms since the last sleep command
    let sleeping: bool = kani::any();
    d.sleeping = sleeping;
    d.di.sleeping = sleeping;
    d.di.on = true;
    d.di.t_slp_ns = Some(0);
    d.di.min_slp_gap_ns = u64::MAX;
    clock.ns.set(120_000_000 + kani::any::<u32>() as u64);
    clock.ops.set(0);
    d
}

/// induction step of "is_sleeping() == controller sleep state" and of the 120 ms spacing, for every operation,
/// with an optional injected bus failure
#[kani::proof]
fn c13_step_preserves_sleep_invariant() {
    let clock = Clock::new();
    let mut d = any_consistent(&clock);
    let before = d.is_sleeping();
    clock.fail_at.set(if kani::any() { 0 } else { u32::MAX });
    let mut delay = MockDelay(&clock);
    let op: u8 = kani::any();
    kani::assume(op < 6);
    let t0 = clock.ns.get();
    let r = match op {
        0 => d.sleep(&mut delay),
        1 => d.wake(&mut delay),
        2 => d.set_orientation(any_orientation()),
        3 => d.set_pixel(0, 0, any_color()),
        4 => d.set_vertical_scroll_offset(kani::any()),
        _ => d.set_tearing_effect(options::TearingEffect::Vertical),
    };
    kani::assert(d.is_sleeping() == d.di.sleeping, "C13: flag differs from the controller's sleep state");
    if r.is_ok() {
        match op {
            0 => kani::assert(d.is_sleeping(), "C13: sleeping after sleep"),
            1 => kani::assert(!d.is_sleeping(), "C13: awake after wake"),
            _ => kani::assert(d.is_sleeping() == before, "C13: flag changed by an unrelated call"),
        }
        if op < 2 {
            kani::assert(clock.ns.get() >= d.di.t_slp_ns.unwrap() + 120_000_000, "C13: 120 ms after the sleep command before returning");
            kani::assert(d.di.t_slp_ns.unwrap() >= t0, "C13: command sent before the delay");
        }
    } else {
        kani::assert(d.is_sleeping() == before, "C13: flag changed although the command failed");
    }
    kani::assert(d.di.min_slp_gap_ns >= 120_000_000, "C13: sleep commands less than 120 ms apart");
    kani::cover!(op == 0 && r.is_ok());
    kani::cover!(op == 1 && r.is_err());
}

// ------------------------------------------------------------------------------- C12 (Display-level faults)
/// fail the k-th Interface operation of any Display call: Err is returned, nothing further is issued, state is
/// intact and the display still draws correctly once the fault has cleared.
#[kani::proof]
fn c12_display_call_fault() {
    let clock = Clock::new();
    let mut d = any_display::<240, 320>(&clock);
    let k: u32 = kani::any();
    clock.fail_at.set(k);
    let mut delay = MockDelay(&clock);
    let before = d.options.clone();
    let slp = d.sleeping;
    let o2 = any_orientation();
    let op: u8 = kani::any();
    kani::assume(op < 8);
    let (lw, lh) = oracle_logical_size(d.options.orientation, d.options.display_size.0, d.options.display_size.1);
    let r = match op {
        0 => d.sleep(&mut delay),
        1 => d.wake(&mut delay),
        2 => d.set_orientation(o2),
        3 => d.set_pixel(lw - 1, lh - 1, any_color()),
        4 => d.set_vertical_scroll_offset(kani::any()),
        5 => d.set_vertical_scroll_region(kani::any(), kani::any()),
        6 => d.set_tearing_effect(options::TearingEffect::HorizontalAndVertical),
        _ => {
            use embedded_graphics_core::draw_target::DrawTarget;
            use embedded_graphics_core::primitives::Rectangle;
            use embedded_graphics_core::geometry::{Point, Size};
            d.fill_solid(&Rectangle::new(Point::new(0, 0), Size::new(2, 2)), any_color())
        }
    };
    let n = clock.ops.get();
    match r {
        Ok(()) => kani::assert(n <= k, "C12: a failing operation was swallowed"),
        Err(_) => kani::assert(n == k + 1, "C12: operations issued after the failing one"),
    }
    // nothing wedged: driver state is consistent and a later draw is placed correctly
    if r.is_err() || op != 2 {
        if op != 2 { kani::assert(d.options.orientation == before.orientation, "C12: orientation changed by an unrelated call"); }
    }
    if op >= 2 { kani::assert(d.sleeping == slp, "C12: sleep flag changed"); }
    kani::assert(d.madctl == dcs::SetAddressMode::from(&d.options), "C12: cached address mode inconsistent with the options after the call");
    clock.fail_at.set(u32::MAX);
    let held = if r.is_ok() && op == 2 { o2 } else { before.orientation };
    kani::assert(d.options.orientation == held, "C12: driver orientation differs from what the controller holds");
    let m0 = d.di.ncmd;
    let (lw, lh) = oracle_logical_size(d.options.orientation, d.options.display_size.0, d.options.display_size.1);
    let (x, y): (u16, u16) = (kani::any(), kani::any());
    kani::assume(x < lw && y < lh);
    kani::assert(d.set_pixel(x, y, any_color()).is_ok(), "C12: drawing fails after the fault has cleared");
    let want = oracle_madctl(d.options.color_order, held, d.options.refresh_order);
    let (sc, sr, ec, er) = window_at(&d, m0);
    kani::assert(sc == ec && sr == er, "C12: window");
    assert_lands(&d, want, sc, sr, x, y);
    kani::cover!(r.is_err() && op == 7);
    kani::cover!(r.is_err() && op == 2);
}

// ---------------------------------------------------------------------------------------------- C02 (draw_iter)
/// one pixel with arbitrary i32 coordinates through draw_iter (the failing magnitudes - x >= width, >= 65536, negative -
/// are single-pixel phenomena): out of bounds => nothing is sent; in bounds => exactly one 1x1 window at the right cell
fn c02_draw_iter_one_pixel<const W: u16, const H: u16>() {
    use embedded_graphics_core::draw_target::DrawTarget;
    use embedded_graphics_core::geometry::Point;
    use embedded_graphics_core::Pixel;
    let clock = Clock::new();
    let mut d = any_display::<W, H>(&clock);
    let madctl = oracle_madctl(d.options.color_order, d.options.orientation, d.options.refresh_order);
    let (lw, lh) = oracle_logical_size(d.options.orientation, d.options.display_size.0, d.options.display_size.1);
    let (x, y): (i32, i32) = (kani::any(), kani::any());
    let r = d.draw_iter(core::iter::once(Pixel(Point::new(x, y), any_color())));
    kani::assert(r.is_ok(), "C02: draw_iter returned an error on a fault-free bus");
    let inb = x >= 0 && y >= 0 && (x as i64) < lw as i64 && (y as i64) < lh as i64;
    if inb {
        kani::assert(d.di.ncmd == 3 && d.di.px_calls == 1 && d.di.px_count == 1, "C08: one window, one pixel");
        let (sc, sr, ec, er) = window_at(&d, 0);
        kani::assert(sc == ec && sr == er, "C08: 1x1 window");
        assert_lands(&d, madctl, sc, sr, x as u16, y as u16);
    } else {
        kani::assert(d.di.ncmd == 0 && d.di.px_calls == 0, "C02: an out-of-bounds pixel was not discarded");
    }
    kani::cover!(inb);
    kani::cover!(!inb && x >= 0 && y >= 0);
}
/// default configuration of a WxH panel (no symbolic options): fast enough for every run
fn default_display<'a, const W: u16, const H: u16>(clock: &'a Clock) -> Disp<'a, W, H> {
    let r = crate::Builder::new(FbModel::<W, H>, RecIface::new(clock)).reset_pin(MockPin::new(clock)).init(&mut MockDelay(clock));
    let mut d = match r { Ok(d) => d, Err(_) => { kani::assume(false); unreachable!() } };
    d.di = RecIface::new(clock);
    clock.ops.set(0);
    d
}
/// the same single-pixel statement on the default configuration
#[kani::proof]
#[kani::unwind(10)]
fn c02_draw_iter_one_pixel_default() {
    use embedded_graphics_core::draw_target::DrawTarget;
    use embedded_graphics_core::geometry::Point;
    use embedded_graphics_core::Pixel;
    let clock = Clock::new();
    let mut d = default_display::<240, 320>(&clock);
    let (x, y): (i32, i32) = (kani::any(), kani::any());
    let r = d.draw_iter(core::iter::once(Pixel(Point::new(x, y), any_color())));
    kani::assert(r.is_ok(), "C02: draw_iter returned an error on a fault-free bus");
    let inb = x >= 0 && y >= 0 && x < 240 && y < 320;
    if inb {
        kani::assert(d.di.ncmd == 3 && d.di.px_calls == 1 && d.di.px_count == 1, "C08: one window, one pixel");
        let (sc, sr, ec, er) = window_at(&d, 0);
        kani::assert(sc == ec && sr == er && sc as i32 == x && sr as i32 == y, "C02: C08: 1x1 window at the pixel");
    } else {
        kani::assert(d.di.ncmd == 0 && d.di.px_calls == 0, "C02: an out-of-bounds pixel was not discarded");
    }
    kani::cover!(inb);
    kani::cover!(!inb && x >= 0 && y >= 0);
}
#[kani::proof]
#[kani::unwind(10)]
fn c02_draw_iter_one_pixel_240x320() { c02_draw_iter_one_pixel::<240, 320>() }
#[kani::proof]
#[kani::unwind(10)]
fn c02_draw_iter_one_pixel_max() { c02_draw_iter_one_pixel::<65535, 65535>() }

// ------------------------------------------------------------------------------ C02 (batch-mode draw_iter, one pixel)
/// Loop-free recording interface: counts commands and pixel bursts, keeps the parameters of the last CASET / RASET.
pub struct TinyIface { pub ncmd: u32, pub caset: [u8; 4], pub raset: [u8; 4], pub bursts: u32, pub pixels: u32 }
impl crate::interface::Interface for TinyIface {
    type Word = u8;
    type Error = MockError;
    const KIND: crate::interface::InterfaceKind = crate::interface::InterfaceKind::Serial4Line;
    fn send_command(&mut self, command: u8, args: &[u8]) -> Result<(), MockError> {
        self.ncmd += 1;
        if args.len() == 4 {
            let a = [args[0], args[1], args[2], args[3]];
            if command == 0x2A { self.caset = a; }
            if command == 0x2B { self.raset = a; }
        }
        Ok(())
    }
    fn send_pixels<const N: usize>(&mut self, pixels: impl IntoIterator<Item = [u8; N]>) -> Result<(), MockError> {
        self.bursts += 1;
        let mut it = pixels.into_iter();
        // the harness sends at most one pixel per burst
        if it.next().is_some() { self.pixels += 1; }
        if it.next().is_some() { self.pixels += 100; }
        Ok(())
    }
    fn send_repeated_pixel<const N: usize>(&mut self, _pixel: [u8; N], count: u32) -> Result<(), MockError> {
        self.bursts += 1;
        self.pixels += count;
        Ok(())
    }
}
/// one pixel with arbitrary i32 coordinates through the BATCH-mode draw_iter of a 240 x 320 panel in its default
/// configuration: out of bounds => nothing is sent; in bounds => exactly one 1x1 window at the pixel
#[cfg(feature = "batch")]
#[kani::proof]
#[kani::unwind(3)]
fn c02_batch_draw_iter_one_pixel() {
    use embedded_graphics_core::draw_target::DrawTarget;
    use embedded_graphics_core::geometry::Point;
    use embedded_graphics_core::Pixel;
    let clock = Clock::new();
    let r = crate::Builder::new(FbModel::<240, 320>, TinyIface { ncmd: 0, caset: [0; 4], raset: [0; 4], bursts: 0, pixels: 0 })
        .reset_pin(MockPin::new(&clock)).init(&mut MockDelay(&clock));
    let mut d = match r { Ok(d) => d, Err(_) => { kani::assume(false); unreachable!() } };
    d.di.ncmd = 0;
    let (x, y): (i32, i32) = (kani::any(), kani::any());
    let r = d.draw_iter(core::iter::once(Pixel(Point::new(x, y), any_color())));
    kani::assert(r.is_ok(), "C02: draw_iter returned an error on a fault-free bus");
    let inb = x >= 0 && y >= 0 && x < 240 && y < 320;
    let which: u8 = kani::any();
    if inb {
        if which == 0 { kani::assert(d.di.ncmd == 3 && d.di.bursts == 1 && d.di.pixels == 1, "C02: C03: C08: one window, one pixel"); }
        if which == 1 { let (c, r) = (d.di.caset, d.di.raset);
            let (xh, xl, yh, yl) = ((x >> 8) as u8, x as u8, (y >> 8) as u8, y as u8);
            kani::assert(c[0] == xh && c[1] == xl && c[2] == xh && c[3] == xl && r[0] == yh && r[1] == yl && r[2] == yh && r[3] == yl, "C02: C01: C08: 1x1 window at the pixel"); }
    } else if which == 2 {
        kani::assert(d.di.ncmd == 0 && d.di.bursts == 0, "C02: an out-of-bounds pixel was not discarded");
    }
    kani::cover!(inb);
    kani::cover!(!inb && x >= 0 && y >= 0);
}

/// the same for every orientation of the 240 x 320 panel (bounds follow the rotation)
#[cfg(feature = "batch")]
#[kani::proof]
#[kani::unwind(3)]
fn c02_batch_draw_iter_one_pixel_any_orientation() {
    use embedded_graphics_core::draw_target::DrawTarget;
    use embedded_graphics_core::geometry::Point;
    use embedded_graphics_core::Pixel;
    let clock = Clock::new();
    let o = any_orientation();
    let r = crate::Builder::new(FbModel::<240, 320>, TinyIface { ncmd: 0, caset: [0; 4], raset: [0; 4], bursts: 0, pixels: 0 })
        .reset_pin(MockPin::new(&clock)).orientation(o).init(&mut MockDelay(&clock));
    let mut d = match r { Ok(d) => d, Err(_) => { kani::assume(false); unreachable!() } };
    d.di.ncmd = 0;
    let (lw, lh) = oracle_logical_size(o, 240, 320);
    let (x, y): (i32, i32) = (kani::any(), kani::any());
    let r = d.draw_iter(core::iter::once(Pixel(Point::new(x, y), any_color())));
    kani::assert(r.is_ok(), "C02: draw_iter returned an error on a fault-free bus");
    let inb = x >= 0 && y >= 0 && x < lw as i32 && y < lh as i32;
    let which: u8 = kani::any();
    if inb {
        if which == 0 { kani::assert(d.di.ncmd == 3 && d.di.bursts == 1 && d.di.pixels == 1, "C02: C03: C08: one window, one pixel"); }
        if which == 1 {
            let (c, r) = (d.di.caset, d.di.raset);
            let (xh, xl, yh, yl) = ((x >> 8) as u8, x as u8, (y >> 8) as u8, y as u8);
            // full-size panel without offset: the window shift is zero in every orientation
            kani::assert(c[0] == xh && c[1] == xl && c[2] == xh && c[3] == xl && r[0] == yh && r[1] == yl && r[2] == yh && r[3] == yl, "C02: C01: C08: 1x1 window at the pixel");
        }
    } else if which == 2 {
        kani::assert(d.di.ncmd == 0 && d.di.bursts == 0, "C02: C03: an out-of-bounds pixel was not discarded");
    }
    kani::cover!(inb && x >= 240);
    kani::cover!(!inb && x >= 0 && y >= 0);
}

// ------------------------------------------------------------------------------ C03 (batch-mode draw_iter, two pixels)
#[derive(Clone, Copy)]
pub struct Burst { pub sx: u16, pub sy: u16, pub ex: u16, pub ey: u16, pub n: u32, pub px: [[u8; 2]; 2] }
/// Loop-free interface that keeps the first two bursts (window + up to two Rgb565 pixels each)
pub struct Tiny2 { pub caset: [u8; 4], pub raset: [u8; 4], pub nb: u32, pub b: [Burst; 2], pub bad: bool, pub armed: u8 }
impl Tiny2 {
    pub fn new() -> Self {
        Tiny2 { caset: [0; 4], raset: [0; 4], nb: 0, b: [Burst { sx: 0, sy: 0, ex: 0, ey: 0, n: 0, px: [[0; 2]; 2] }; 2], bad: false, armed: 0 }
    }
}
impl crate::interface::Interface for Tiny2 {
    type Word = u8;
    type Error = MockError;
    const KIND: crate::interface::InterfaceKind = crate::interface::InterfaceKind::Serial4Line;
    fn send_command(&mut self, command: u8, args: &[u8]) -> Result<(), MockError> {
        if command == 0x2A && args.len() == 4 { self.caset = [args[0], args[1], args[2], args[3]]; if self.armed != 0 { self.bad = true; } self.armed = 1; }
        else if command == 0x2B && args.len() == 4 { self.raset = [args[0], args[1], args[2], args[3]]; if self.armed != 1 { self.bad = true; } self.armed = 2; }
        else if command == 0x2C && args.len() == 0 { if self.armed != 2 { self.bad = true; } self.armed = 3; }
        else { self.bad = true; }
        Ok(())
    }
    fn send_pixels<const N: usize>(&mut self, pixels: impl IntoIterator<Item = [u8; N]>) -> Result<(), MockError> {
        if self.armed != 3 || N != 2 { self.bad = true; }
        self.armed = 0;
        let mut it = pixels.into_iter();
        let mut cur = Burst { sx: u16::from_be_bytes([self.caset[0], self.caset[1]]), ex: u16::from_be_bytes([self.caset[2], self.caset[3]]),
                              sy: u16::from_be_bytes([self.raset[0], self.raset[1]]), ey: u16::from_be_bytes([self.raset[2], self.raset[3]]), n: 0, px: [[0; 2]; 2] };
        if let Some(p) = it.next() { cur.px[0] = [p[0], p[1 % N]]; cur.n += 1; }
        if let Some(p) = it.next() { cur.px[1] = [p[0], p[1 % N]]; cur.n += 1; }
        if it.next().is_some() { self.bad = true; }
        if self.nb < 2 { self.b[self.nb as usize] = cur; } else { self.bad = true; }
        self.nb += 1;
        Ok(())
    }
    /// a burst of `count` equal pixels (a legitimate way to send a block of one colour)
    fn send_repeated_pixel<const N: usize>(&mut self, pixel: [u8; N], count: u32) -> Result<(), MockError> {
        if self.armed != 3 || N != 2 || count > 2 { self.bad = true; }
        self.armed = 0;
        let p = [pixel[0], pixel[1 % N]];
        let cur = Burst { sx: u16::from_be_bytes([self.caset[0], self.caset[1]]), ex: u16::from_be_bytes([self.caset[2], self.caset[3]]),
                          sy: u16::from_be_bytes([self.raset[0], self.raset[1]]), ey: u16::from_be_bytes([self.raset[2], self.raset[3]]), n: count, px: [p, p] };
        if self.nb < 2 { self.b[self.nb as usize] = cur; } else { self.bad = true; }
        self.nb += 1;
        Ok(())
    }
}
/// BOUNDED stand-in (2 pixels, 240 x 320 panel, default configuration, batch mode): the bursts, read window by window in
/// row-major order, are exactly the in-bounds pixels of the stream in stream order - which is what applying set_pixel
/// one by one writes; out-of-bounds pixels are discarded; adjacent pixels share one window
#[cfg(feature = "batch")]
#[kani::proof]
#[kani::unwind(4)]
fn c03_batch_two_pixels() {
    use embedded_graphics_core::draw_target::DrawTarget;
    use embedded_graphics_core::geometry::Point;
    use embedded_graphics_core::Pixel;
    use embedded_graphics_core::pixelcolor::{raw::RawU16, Rgb565};
    use embedded_graphics_core::prelude::RawData;
    let clock = Clock::new();
    let r = crate::Builder::new(FbModel::<240, 320>, Tiny2::new()).reset_pin(MockPin::new(&clock)).init(&mut MockDelay(&clock));
    let mut d = match r { Ok(d) => d, Err(_) => { kani::assume(false); unreachable!() } };
    d.di = Tiny2::new();
    let p: [(i32, i32, u16); 2] = kani::any();
    let mk = |q: (i32, i32, u16)| Pixel(Point::new(q.0, q.1), Rgb565::from(RawU16::new(q.2)));
    let r = d.draw_iter([mk(p[0]), mk(p[1])]);
    kani::assert(r.is_ok(), "C02: draw_iter returned an error on a fault-free bus");
    let inb = |q: (i32, i32, u16)| q.0 >= 0 && q.1 >= 0 && q.0 < 240 && q.1 < 320;
    // expected write sequence: the in-bounds pixels in stream order
    let mut want: [(i32, i32, u16); 2] = [(0, 0, 0); 2];
    let mut nw = 0usize;
    if inb(p[0]) { want[nw] = p[0]; nw += 1; }
    if inb(p[1]) { want[nw] = p[1]; nw += 1; }
    // actual write sequence: bursts in order, each window read row-major
    let mut got: [(i32, i32, u16); 2] = [(0, 0, 0); 2];
    let mut ng = 0usize;
    let mut framing_ok = !d.di.bad && d.di.nb <= 2;
    let b0 = d.di.b[0];
    let b1 = d.di.b[1];
    if d.di.nb >= 1 {
        let w = b0.ex as i32 - b0.sx as i32 + 1;
        let h = b0.ey as i32 - b0.sy as i32 + 1;
        if w < 1 || h < 1 || (b0.n as i32) > w * h || b0.n < 1 { framing_ok = false; } else {
            got[0] = (b0.sx as i32, b0.sy as i32, u16::from_be_bytes(b0.px[0])); ng = 1;
            if b0.n == 2 { got[1] = (b0.sx as i32 + 1 % w, b0.sy as i32 + 1 / w, u16::from_be_bytes(b0.px[1])); ng = 2; }
        }
    }
    if d.di.nb == 2 && framing_ok {
        let w = b1.ex as i32 - b1.sx as i32 + 1;
        let h = b1.ey as i32 - b1.sy as i32 + 1;
        if w < 1 || h < 1 || (b1.n as i32) > w * h || b1.n != 1 || ng != 1 { framing_ok = false; } else {
            got[1] = (b1.sx as i32, b1.sy as i32, u16::from_be_bytes(b1.px[0])); ng = 2;
        }
    }
    let which: u8 = kani::any();
    if which == 0 { kani::assert(framing_ok, "C08: C03: malformed window / burst framing"); }
    if which == 1 && framing_ok { kani::assert(ng == nw && (nw < 1 || got[0] == want[0]) && (nw < 2 || got[1] == want[1]), "C03: C02: the bursts are not the in-bounds pixels in stream order"); }
    if which == 2 && framing_ok && nw == 2 && want[1].1 == want[0].1 && want[1].0 == want[0].0 + 1 { kani::assert(d.di.nb == 1, "C20: two adjacent pixels of a row must share one window"); }
    kani::cover!(nw == 2 && d.di.nb == 1 && b0.ey > b0.sy);
    kani::cover!(nw == 2 && d.di.nb == 2);
    kani::cover!(nw == 1);
}

/// BOUNDED stand-in (batch mode): two horizontally adjacent in-bounds pixels supplied left to right are sent as ONE
/// window with a two-pixel burst, in order (C20 row merging; C03 order and colours)
#[cfg(feature = "batch")]
#[kani::proof]
#[kani::unwind(4)]
fn c20_batch_adjacent_pair_one_window() {
    use embedded_graphics_core::draw_target::DrawTarget;
    use embedded_graphics_core::geometry::Point;
    use embedded_graphics_core::Pixel;
    use embedded_graphics_core::pixelcolor::{raw::RawU16, Rgb565};
    let clock = Clock::new();
    let r = crate::Builder::new(FbModel::<240, 320>, Tiny2::new()).reset_pin(MockPin::new(&clock)).init(&mut MockDelay(&clock));
    let mut d = match r { Ok(d) => d, Err(_) => { kani::assume(false); unreachable!() } };
    d.di = Tiny2::new();
    let (x, y): (u16, u16) = (kani::any(), kani::any());
    kani::assume(x < 239 && y < 320);
    let (c0, c1): (u16, u16) = (kani::any(), kani::any());
    let mk = |px: u16, c: u16| Pixel(Point::new(px as i32, y as i32), Rgb565::from(RawU16::new(c)));
    let r = d.draw_iter([mk(x, c0), mk(x + 1, c1)]);
    kani::assert(r.is_ok(), "C02: draw_iter returned an error on a fault-free bus");
    let b0 = d.di.b[0];
    let which: u8 = kani::any();
    if which == 0 { kani::assert(!d.di.bad && d.di.nb == 1, "C20: two adjacent pixels of a row must share one window"); }
    if which == 1 && d.di.nb == 1 {
        kani::assert(b0.sx == x && b0.ex == x + 1 && b0.sy == y && b0.ey == y && b0.n == 2
                     && u16::from_be_bytes(b0.px[0]) == c0 && u16::from_be_bytes(b0.px[1]) == c1, "C03: C08: the burst is not the two pixels in order in a 2x1 window");
    }
    kani::cover!(d.di.nb == 1 && x == 238);
}

/// BOUNDED stand-in (batch mode, one concrete geometry, colours symbolic): two vertically adjacent pixels (3,5) and (3,6) with
/// arbitrary colours are sent as ONE 1x2 window whose burst carries the two colours in stream order - a block merged from rows
/// keeps every row's own colours (C03), within one window (C20)
#[cfg(feature = "batch")]
#[kani::proof]
#[kani::unwind(4)]
fn c03_batch_vertical_pair_colours() {
    use embedded_graphics_core::draw_target::DrawTarget;
    use embedded_graphics_core::geometry::Point;
    use embedded_graphics_core::Pixel;
    use embedded_graphics_core::pixelcolor::{raw::RawU16, Rgb565};
    let clock = Clock::new();
    let r = crate::Builder::new(FbModel::<240, 320>, Tiny2::new()).reset_pin(MockPin::new(&clock)).init(&mut MockDelay(&clock));
    let mut d = match r { Ok(d) => d, Err(_) => { kani::assume(false); unreachable!() } };
    d.di = Tiny2::new();
    let (c0, c1): (u16, u16) = (kani::any(), kani::any());
    let mk = |y: i32, c: u16| Pixel(Point::new(3, y), Rgb565::from(RawU16::new(c)));
    let r = d.draw_iter([mk(5, c0), mk(6, c1)]);
    kani::assert(r.is_ok(), "C02: draw_iter returned an error on a fault-free bus");
    let b0 = d.di.b[0];
    let which: u8 = kani::any();
    if which == 0 { kani::assert(!d.di.bad && d.di.nb == 1, "C20: two vertically adjacent pixels must share one window"); }
    if which == 1 && d.di.nb == 1 {
        kani::assert(b0.sx == 3 && b0.ex == 3 && b0.sy == 5 && b0.ey == 6 && b0.n == 2
                     && u16::from_be_bytes(b0.px[0]) == c0 && u16::from_be_bytes(b0.px[1]) == c1, "C03: C08: the burst is not the two pixels in order in a 1x2 window");
    }
    kani::cover!(d.di.nb == 1 && c0 == c1);
    kani::cover!(d.di.nb == 1 && c0 != c1);
}
