//! Display-level harnesses (child module of the crate root: sees `Display`'s private fields).
extern crate std;
#[allow(unused_imports)]
use std::{vec, vec::Vec};
use crate::vk_support::*;
use crate::{dcs, options, Display};
#[allow(unused_imports)]
use embedded_hal::digital::OutputPin;

type Disp<'a, const W: u16, const H: u16> = Display<RecIface<'a, u8, 0>, FbModel<W, H>, MockPin<'a>>;

/// Any display `Builder::init` can produce for this framebuffer: built through the public builder API (so the harness
/// does not depend on `Display`'s private layout); the recording interface is reset afterwards (`base` = 0).
fn any_display<'a, const W: u16, const H: u16>(clock: &'a Clock) -> Disp<'a, W, H> {
    let o = any_valid_options(W, H);
    let r = crate::Builder::new(FbModel::<W, H>, RecIface::new(clock))
        .reset_pin(MockPin::new(clock))
        .color_order(o.color_order)
        .orientation(o.orientation)
        .invert_colors(o.invert_colors)
        .refresh_order(o.refresh_order)
        .display_size(o.display_size.0, o.display_size.1)
        .display_offset(o.display_offset.0, o.display_offset.1)
        .init(&mut MockDelay(clock));
    let mut d = match r { Ok(d) => d, Err(_) => { kani::assume(false); unreachable!() } };
    // forget the initialisation traffic: harnesses count from here
    d.di = RecIface::new(clock);
    clock.ops.set(0);
    d
}

// ---------------------------------------------------------------------------------------------- C16
fn c16_region<const W: u16, const H: u16>() {
    let clock = Clock::new();
    let mut d = any_display::<W, H>(&clock);
    let top: u16 = kani::any();
    let bottom: u16 = kani::any();
    let r = d.set_vertical_scroll_region(top, bottom);
    assert!(r.is_ok());
    assert!(d.di.ncmd == 1 && d.di.px_calls == 0);
    let c = d.di.cmd(0);
    assert!(c.op == 0x33 && c.len == 6);
    let tfa = u16::from_be_bytes([c.p[0], c.p[1]]) as u32;
    let vsa = u16::from_be_bytes([c.p[2], c.p[3]]) as u32;
    let bfa = u16::from_be_bytes([c.p[4], c.p[5]]) as u32;
    assert!(tfa + vsa + bfa == H as u32);
    if top as u32 + bottom as u32 <= H as u32 {
        assert!(tfa == top as u32 && bfa == bottom as u32);
    }
}
#[kani::proof]
fn c16_region_h1() { c16_region::<1, 1>() }
#[kani::proof]
fn c16_region_h160() { c16_region::<128, 160>() }
#[kani::proof]
fn c16_region_h320() { c16_region::<240, 320>() }
#[kani::proof]
fn c16_region_h480() { c16_region::<320, 480>() }
#[kani::proof]
fn c16_region_h536() { c16_region::<240, 536>() }
#[kani::proof]
fn c16_region_h65535() { c16_region::<65535, 65535>() }

#[kani::proof]
fn c16_offset() {
    let clock = Clock::new();
    let mut d = any_display::<240, 320>(&clock);
    let off: u16 = kani::any();
    let r = d.set_vertical_scroll_offset(off);
    assert!(r.is_ok());
    assert!(d.di.ncmd == 1 && d.di.px_calls == 0);
    let c = d.di.cmd(0);
    assert!(c.op == 0x37 && c.len == 2 && c.p[0] == (off >> 8) as u8 && c.p[1] == (off & 0xff) as u8);
}

// ---------------------------------------------------------------------------------------- C01 / C10
use embedded_graphics_core::geometry::{Dimensions, OriginDimensions};
use embedded_graphics_core::pixelcolor::{raw::RawU16, Rgb565};
use embedded_graphics_core::prelude::RawData;

fn any_color() -> Rgb565 {
    Rgb565::from(RawU16::new(kani::any()))
}

/// decode the three commands of a one-window burst recorded at positions i..i+3
fn window_at<const W: u16, const H: u16>(d: &Disp<W, H>, i: usize) -> (u16, u16, u16, u16) {
    let (c, r, m) = (d.di.cmd(i), d.di.cmd(i + 1), d.di.cmd(i + 2));
    assert!(c.op == 0x2A && c.len == 4 && r.op == 0x2B && r.len == 4 && m.op == 0x2C && m.len == 0);
    (u16::from_be_bytes([c.p[0], c.p[1]]), u16::from_be_bytes([r.p[0], r.p[1]]),
     u16::from_be_bytes([c.p[2], c.p[3]]), u16::from_be_bytes([r.p[2], r.p[3]]))
}

/// the cell the controller writes for address (c, r) must be the cell the statement names for (x, y)
fn assert_lands<const W: u16, const H: u16>(d: &Disp<W, H>, madctl: u8, c: u16, r: u16, x: u16, y: u16) {
    let o = d.options.orientation;
    let (w, h) = (d.options.display_size.0 as i64, d.options.display_size.1 as i64);
    let (ox, oy) = (d.options.display_offset.0 as i64, d.options.display_offset.1 as i64);
    let pc = oracle_panel_cell(o, w, h, x as i64, y as i64);
    let got = oracle_ctrl_phys(madctl, W as i64, H as i64, c as i64, r as i64);
    assert!(got == (ox + pc.0, oy + pc.1));
    assert!(0 <= got.0 && got.0 < W as i64 && 0 <= got.1 && got.1 < H as i64);
}

fn c01_set_pixel<const W: u16, const H: u16>() {
    let clock = Clock::new();
    let mut d = any_display::<W, H>(&clock);
    let madctl = oracle_madctl(d.options.color_order, d.options.orientation, d.options.refresh_order);
    let (lw, lh) = oracle_logical_size(d.options.orientation, d.options.display_size.0, d.options.display_size.1);
    let (x, y): (u16, u16) = (kani::any(), kani::any());
    kani::assume(x < lw && y < lh);
    assert!(d.set_pixel(x, y, any_color()).is_ok());
    assert!(d.di.ncmd == 3 && d.di.px_calls == 1 && d.di.px_count == 1 && d.di.px_after_cmds == 3);
    let (sc, sr, ec, er) = window_at(&d, 0);
    assert!(sc == ec && sr == er);
    assert_lands(&d, madctl, sc, sr, x, y);
    kani::cover!(x + 1 == lw && y + 1 == lh);
}
#[kani::proof]
fn c01_set_pixel_1x1() { c01_set_pixel::<1, 1>() }
#[kani::proof]
fn c01_set_pixel_240x320() { c01_set_pixel::<240, 320>() }
#[kani::proof]
fn c01_set_pixel_320x240() { c01_set_pixel::<320, 240>() }
#[kani::proof]
fn c01_set_pixel_max() { c01_set_pixel::<65535, 65535>() }

/// C10: after set_orientation everything observable agrees with the new orientation
fn c10_set_orientation<const W: u16, const H: u16>() {
    let clock = Clock::new();
    let mut d = any_display::<W, H>(&clock);
    let before = d.options.clone();
    let o2 = any_orientation();
    assert!(d.set_orientation(o2).is_ok());
    // bus: exactly one MADCTL with the encoding of (old colour order, new orientation, old refresh order)
    let want = oracle_madctl(before.color_order, o2, before.refresh_order);
    let c = d.di.cmd(0);
    assert!(d.di.ncmd == 1 && c.op == 0x36 && c.len == 1 && c.p[0] == want);
    // reported state
    assert!(d.orientation() == o2);
    let (lw, lh) = oracle_logical_size(o2, before.display_size.0, before.display_size.1);
    assert!(d.size().width == lw as u32 && d.size().height == lh as u32);
    assert!(d.bounding_box().size == d.size());
    // same driver state as a display built with o2
    let mut fresh = before.clone();
    fresh.orientation = o2;
    assert!(d.madctl == dcs::SetAddressMode::from(&fresh));
    assert!(d.options.display_size == before.display_size && d.options.display_offset == before.display_offset);
    assert!(d.options.color_order == before.color_order && d.options.refresh_order == before.refresh_order);
    // placement of subsequent drawing
    let (x, y): (u16, u16) = (kani::any(), kani::any());
    kani::assume(x < lw && y < lh);
    assert!(d.set_pixel(x, y, any_color()).is_ok());
    let (sc, sr, ec, er) = window_at(&d, 1);
    assert!(sc == ec && sr == er);
    assert_lands(&d, want, sc, sr, x, y);
    kani::cover!(o2 != before.orientation);
}
#[kani::proof]
fn c10_set_orientation_240x320() { c10_set_orientation::<240, 320>() }
#[kani::proof]
fn c10_set_orientation_max() { c10_set_orientation::<65535, 65535>() }

// ---------------------------------------------------------------------------------------------- C13
type CDisp<'a> = Display<CtrlMock<'a, 0>, FbModel<240, 320>, MockPin<'a>>;

/// any display whose flag agrees with the controller (the invariant), any time since the last sleep command >= 120 ms
fn any_consistent<'a>(clock: &'a Clock) -> CDisp<'a> {
    let o = any_valid_options(240, 320);
    let r = crate::Builder::new(FbModel::<240, 320>, CtrlMock::<0>::new(clock))
        .reset_pin(MockPin::new(clock))
        .orientation(o.orientation)
        .display_size(o.display_size.0, o.display_size.1)
        .display_offset(o.display_offset.0, o.display_offset.1)
        .init(&mut MockDelay(clock));
    let mut d = match r { Ok(d) => d, Err(_) => { kani::assume(false); unreachable!() } };
    // any state in which flag and controller agree (the invariant), any time >= 120 ms since the last sleep command
    let sleeping: bool = kani::any();
    d.sleeping = sleeping;
    d.di.sleeping = sleeping;
    d.di.on = true;
    d.di.t_slp_ns = Some(0);
    d.di.min_slp_gap_ns = u64::MAX;
    clock.ns.set(120_000_000 + kani::any::<u32>() as u64);
    clock.ops.set(0);
    d
}

/// induction step of "is_sleeping() == controller sleep state" and of the 120 ms spacing, for every operation,
/// with an optional injected bus failure
#[kani::proof]
fn c13_step_preserves_sleep_invariant() {
    let clock = Clock::new();
    let mut d = any_consistent(&clock);
    let before = d.is_sleeping();
    clock.fail_at.set(if kani::any() { 0 } else { u32::MAX });
    let mut delay = MockDelay(&clock);
    let op: u8 = kani::any();
    kani::assume(op < 6);
    let t0 = clock.ns.get();
    let r = match op {
        0 => d.sleep(&mut delay),
        1 => d.wake(&mut delay),
        2 => d.set_orientation(any_orientation()),
        3 => d.set_pixel(0, 0, any_color()),
        4 => d.set_vertical_scroll_offset(kani::any()),
        _ => d.set_tearing_effect(options::TearingEffect::Vertical),
    };
    kani::assert(d.is_sleeping() == d.di.sleeping, "C13: flag differs from the controller's sleep state");
    if r.is_ok() {
        match op {
            0 => kani::assert(d.is_sleeping(), "C13: sleeping after sleep"),
            1 => kani::assert(!d.is_sleeping(), "C13: awake after wake"),
            _ => kani::assert(d.is_sleeping() == before, "C13: flag changed by an unrelated call"),
        }
        if op < 2 {
            kani::assert(clock.ns.get() >= d.di.t_slp_ns.unwrap() + 120_000_000, "C13: 120 ms after the sleep command before returning");
            kani::assert(d.di.t_slp_ns.unwrap() >= t0, "C13: command sent before the delay");
        }
    } else {
        kani::assert(d.is_sleeping() == before, "C13: flag changed although the command failed");
    }
    kani::assert(d.di.min_slp_gap_ns >= 120_000_000, "C13: sleep commands less than 120 ms apart");
    kani::cover!(op == 0 && r.is_ok());
    kani::cover!(op == 1 && r.is_err());
}

// ------------------------------------------------------------------------------- C12 (Display-level faults)
/// fail the k-th Interface operation of any Display call: Err is returned, nothing further is issued, state is
/// intact and the display still draws correctly once the fault has cleared.
#[kani::proof]
fn c12_display_call_fault() {
    let clock = Clock::new();
    let mut d = any_display::<240, 320>(&clock);
    let k: u32 = kani::any();
    clock.fail_at.set(k);
    let mut delay = MockDelay(&clock);
    let before = d.options.clone();
    let slp = d.sleeping;
    let o2 = any_orientation();
    let op: u8 = kani::any();
    kani::assume(op < 8);
    let (lw, lh) = oracle_logical_size(d.options.orientation, d.options.display_size.0, d.options.display_size.1);
    let r = match op {
        0 => d.sleep(&mut delay),
        1 => d.wake(&mut delay),
        2 => d.set_orientation(o2),
        3 => d.set_pixel(lw - 1, lh - 1, any_color()),
        4 => d.set_vertical_scroll_offset(kani::any()),
        5 => d.set_vertical_scroll_region(kani::any(), kani::any()),
        6 => d.set_tearing_effect(options::TearingEffect::HorizontalAndVertical),
        _ => {
            use embedded_graphics_core::draw_target::DrawTarget;
            use embedded_graphics_core::primitives::Rectangle;
            use embedded_graphics_core::geometry::{Point, Size};
            d.fill_solid(&Rectangle::new(Point::new(0, 0), Size::new(2, 2)), any_color())
        }
    };
    let n = clock.ops.get();
    match r {
        Ok(()) => kani::assert(n <= k, "C12: a failing operation was swallowed"),
        Err(_) => kani::assert(n == k + 1, "C12: operations issued after the failing one"),
    }
    // nothing wedged: driver state is consistent and a later draw is placed correctly
    if r.is_err() || op != 2 {
        if op != 2 { kani::assert(d.options.orientation == before.orientation, "C12: orientation changed by an unrelated call"); }
    }
    if op >= 2 { kani::assert(d.sleeping == slp, "C12: sleep flag changed"); }
    kani::assert(d.madctl == dcs::SetAddressMode::from(&d.options), "C12: cached address mode inconsistent with the options after the call");
    clock.fail_at.set(u32::MAX);
    let held = if r.is_ok() && op == 2 { o2 } else { before.orientation };
    kani::assert(d.options.orientation == held, "C12: driver orientation differs from what the controller holds");
    let m0 = d.di.ncmd;
    let (lw, lh) = oracle_logical_size(d.options.orientation, d.options.display_size.0, d.options.display_size.1);
    let (x, y): (u16, u16) = (kani::any(), kani::any());
    kani::assume(x < lw && y < lh);
    kani::assert(d.set_pixel(x, y, any_color()).is_ok(), "C12: drawing fails after the fault has cleared");
    let want = oracle_madctl(d.options.color_order, held, d.options.refresh_order);
    let (sc, sr, ec, er) = window_at(&d, m0);
    kani::assert(sc == ec && sr == er, "C12: window");
    assert_lands(&d, want, sc, sr, x, y);
    kani::cover!(r.is_err() && op == 7);
    kani::cover!(r.is_err() && op == 2);
}

// ---------------------------------------------------------------------------------------------- C02 (draw_iter)
/// one pixel with arbitrary i32 coordinates through draw_iter (the failing magnitudes - x >= width, >= 65536, negative -
/// are single-pixel phenomena): out of bounds => nothing is sent; in bounds => exactly one 1x1 window at the right cell
fn c02_draw_iter_one_pixel<const W: u16, const H: u16>() {
    use embedded_graphics_core::draw_target::DrawTarget;
    use embedded_graphics_core::geometry::Point;
    use embedded_graphics_core::Pixel;
    let clock = Clock::new();
    let mut d = any_display::<W, H>(&clock);
    let madctl = oracle_madctl(d.options.color_order, d.options.orientation, d.options.refresh_order);
    let (lw, lh) = oracle_logical_size(d.options.orientation, d.options.display_size.0, d.options.display_size.1);
    let (x, y): (i32, i32) = (kani::any(), kani::any());
    let r = d.draw_iter(core::iter::once(Pixel(Point::new(x, y), any_color())));
    kani::assert(r.is_ok(), "C02: draw_iter returned an error on a fault-free bus");
    let inb = x >= 0 && y >= 0 && (x as i64) < lw as i64 && (y as i64) < lh as i64;
    if inb {
        kani::assert(d.di.ncmd == 3 && d.di.px_calls == 1 && d.di.px_count == 1, "C08: one window, one pixel");
        let (sc, sr, ec, er) = window_at(&d, 0);
        kani::assert(sc == ec && sr == er, "C08: 1x1 window");
        assert_lands(&d, madctl, sc, sr, x as u16, y as u16);
    } else {
        kani::assert(d.di.ncmd == 0 && d.di.px_calls == 0, "C02: an out-of-bounds pixel was not discarded");
    }
    kani::cover!(inb);
    kani::cover!(!inb && x >= 0 && y >= 0);
}
/// default configuration of a WxH panel (no symbolic options): fast enough for every run
fn default_display<'a, const W: u16, const H: u16>(clock: &'a Clock) -> Disp<'a, W, H> {
    let r = crate::Builder::new(FbModel::<W, H>, RecIface::new(clock)).reset_pin(MockPin::new(clock)).init(&mut MockDelay(clock));
    let mut d = match r { Ok(d) => d, Err(_) => { kani::assume(false); unreachable!() } };
    d.di = RecIface::new(clock);
    clock.ops.set(0);
    d
}
/// the same single-pixel statement on the default configuration
#[kani::proof]
#[kani::unwind(10)]
fn c02_draw_iter_one_pixel_default() {
    use embedded_graphics_core::draw_target::DrawTarget;
    use embedded_graphics_core::geometry::Point;
    use embedded_graphics_core::Pixel;
    let clock = Clock::new();
    let mut d = default_display::<240, 320>(&clock);
    let (x, y): (i32, i32) = (kani::any(), kani::any());
    let r = d.draw_iter(core::iter::once(Pixel(Point::new(x, y), any_color())));
    kani::assert(r.is_ok(), "C02: draw_iter returned an error on a fault-free bus");
    let inb = x >= 0 && y >= 0 && x < 240 && y < 320;
    if inb {
        kani::assert(d.di.ncmd == 3 && d.di.px_calls == 1 && d.di.px_count == 1, "C08: one window, one pixel");
        let (sc, sr, ec, er) = window_at(&d, 0);
        kani::assert(sc == ec && sr == er && sc as i32 == x && sr as i32 == y, "C02: C08: 1x1 window at the pixel");
    } else {
        kani::assert(d.di.ncmd == 0 && d.di.px_calls == 0, "C02: an out-of-bounds pixel was not discarded");
    }
    kani::cover!(inb);
    kani::cover!(!inb && x >= 0 && y >= 0);
}
#[kani::proof]
#[kani::unwind(10)]
fn c02_draw_iter_one_pixel_240x320() { c02_draw_iter_one_pixel::<240, 320>() }
#[kani::proof]
#[kani::unwind(10)]
fn c02_draw_iter_one_pixel_max() { c02_draw_iter_one_pixel::<65535, 65535>() }
