//! Display-level harnesses (child module of the crate root: sees `Display`'s private fields).
extern crate std;
#[allow(unused_imports)]
use std::{vec, vec::Vec};
use crate::vk_support::*;
use crate::{dcs, Display};

type Disp<'a, const W: u16, const H: u16> = Display<RecIface<'a, u8, 0>, FbModel<W, H>, MockPin<'a>>;

fn any_display<'a, const W: u16, const H: u16>(clock: &'a Clock) -> Disp<'a, W, H> {
    let options = any_valid_options(W, H);
    let madctl = dcs::SetAddressMode::from(&options);
    Display { di: RecIface::new(clock), model: FbModel::<W, H>, rst: None, options, madctl, sleeping: kani::any() }
}

// ---------------------------------------------------------------------------------------------- C16
fn c16_region<const W: u16, const H: u16>() {
    let clock = Clock::new();
    let mut d = any_display::<W, H>(&clock);
    let top: u16 = kani::any();
    let bottom: u16 = kani::any();
    let r = d.set_vertical_scroll_region(top, bottom);
    assert!(r.is_ok());
    assert!(d.di.ncmd == 1 && d.di.px_calls == 0);
    let c = d.di.cmd(0);
    assert!(c.op == 0x33 && c.len == 6);
    let tfa = u16::from_be_bytes([c.p[0], c.p[1]]) as u32;
    let vsa = u16::from_be_bytes([c.p[2], c.p[3]]) as u32;
    let bfa = u16::from_be_bytes([c.p[4], c.p[5]]) as u32;
    assert!(tfa + vsa + bfa == H as u32);
    if top as u32 + bottom as u32 <= H as u32 {
        assert!(tfa == top as u32 && bfa == bottom as u32);
    }
}
#[kani::proof]
fn c16_region_h1() { c16_region::<1, 1>() }
#[kani::proof]
fn c16_region_h160() { c16_region::<128, 160>() }
#[kani::proof]
fn c16_region_h320() { c16_region::<240, 320>() }
#[kani::proof]
fn c16_region_h480() { c16_region::<320, 480>() }
#[kani::proof]
fn c16_region_h536() { c16_region::<240, 536>() }
#[kani::proof]
fn c16_region_h65535() { c16_region::<65535, 65535>() }

#[kani::proof]
fn c16_offset() {
    let clock = Clock::new();
    let mut d = any_display::<240, 320>(&clock);
    let off: u16 = kani::any();
    let r = d.set_vertical_scroll_offset(off);
    assert!(r.is_ok());
    assert!(d.di.ncmd == 1 && d.di.px_calls == 0);
    let c = d.di.cmd(0);
    assert!(c.op == 0x37 && c.len == 2 && c.p[0] == (off >> 8) as u8 && c.p[1] == (off & 0xff) as u8);
}
