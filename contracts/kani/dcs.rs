//! C18 harnesses (child of dcs).
extern crate std;
#[allow(unused_imports)]
use std::{vec, vec::Vec};
use super::*;
use crate::options::{ColorInversion, TearingEffect};
#[allow(unused_imports)]
use crate::interface::Interface;
use crate::vk_support::*;

/// std contract used by the Verus wrapper vf::u16_to_be_bytes
#[kani::proof]
fn c18_be16_all_u16() {
    let x: u16 = kani::any();
    let b = x.to_be_bytes();
    assert!(b[0] == (x >> 8) as u8 && b[1] == (x & 0xff) as u8);
    assert!(u16::from_be_bytes(b) == x);
}

fn untouched(buf: &[u8; 16], old: &[u8; 16], n: usize) {
    let i: usize = kani::any();
    kani::assume(i >= n && i < 16);
    assert!(buf[i] == old[i]);
}

#[kani::proof]
fn c18_caset_raset_all() {
    let (s, e): (u16, u16) = (kani::any(), kani::any());
    let mut buf: [u8; 16] = kani::any();
    let old = buf;
    let c = SetColumnAddress::new(s, e);
    assert!(c.instruction() == 0x2A);
    assert!(c.fill_params_buf(&mut buf) == 4);
    assert!(buf[0..2] == be(s) && buf[2..4] == be(e));
    untouched(&buf, &old, 4);
    let mut buf2 = old;
    let p = SetPageAddress::new(s, e);
    assert!(p.instruction() == 0x2B);
    assert!(p.fill_params_buf(&mut buf2) == 4);
    assert!(buf2[0..2] == be(s) && buf2[2..4] == be(e));
    untouched(&buf2, &old, 4);
}

#[kani::proof]
fn c18_scroll_all() {
    let (t, v, b): (u16, u16, u16) = (kani::any(), kani::any(), kani::any());
    let mut buf: [u8; 16] = kani::any();
    let old = buf;
    let c = SetScrollArea::new(t, v, b);
    assert!(c.instruction() == 0x33);
    assert!(c.fill_params_buf(&mut buf) == 6);
    assert!(buf[0..2] == be(t) && buf[2..4] == be(v) && buf[4..6] == be(b));
    untouched(&buf, &old, 6);
    let mut buf2 = old;
    let s = SetScrollStart::new(t);
    assert!(s.instruction() == 0x37);
    assert!(s.fill_params_buf(&mut buf2) == 2);
    assert!(buf2[0..2] == be(t));
    untouched(&buf2, &old, 2);
}

fn any_bpp() -> BitsPerPixel {
    match kani::any::<u8>() % 6 {
        0 => BitsPerPixel::Three,
        1 => BitsPerPixel::Eight,
        2 => BitsPerPixel::Twelve,
        3 => BitsPerPixel::Sixteen,
        4 => BitsPerPixel::Eighteen,
        _ => BitsPerPixel::TwentyFour,
    }
}
fn bpp_code(b: BitsPerPixel) -> u8 {
    match b {
        BitsPerPixel::Three => 1,
        BitsPerPixel::Eight => 2,
        BitsPerPixel::Twelve => 3,
        BitsPerPixel::Sixteen => 5,
        BitsPerPixel::Eighteen => 6,
        BitsPerPixel::TwentyFour => 7,
    }
}

#[kani::proof]
fn c18_enums_all() {
    let mut buf: [u8; 16] = kani::any();
    let old = buf;
    // tearing effect
    let te = match kani::any::<u8>() % 3 { 0 => TearingEffect::Off, 1 => TearingEffect::Vertical, _ => TearingEffect::HorizontalAndVertical };
    let c = SetTearingEffect::new(te);
    let n = c.fill_params_buf(&mut buf);
    match te {
        TearingEffect::Off => assert!(c.instruction() == 0x34 && n == 0),
        TearingEffect::Vertical => assert!(c.instruction() == 0x35 && n == 1 && buf[0] == 0),
        TearingEffect::HorizontalAndVertical => assert!(c.instruction() == 0x35 && n == 1 && buf[0] == 1),
    }
    untouched(&buf, &old, n);
    // invert
    let inv = any_inversion();
    let c = SetInvertMode::new(inv);
    let mut b2 = old;
    assert!(c.fill_params_buf(&mut b2) == 0 && b2 == old);
    assert!(c.instruction() == if inv == ColorInversion::Normal { 0x20 } else { 0x21 });
    // pixel format
    let (dpi, dbi) = (any_bpp(), any_bpp());
    let c = SetPixelFormat::new(PixelFormat::new(dpi, dbi));
    let mut b3 = old;
    assert!(c.instruction() == 0x3A && c.fill_params_buf(&mut b3) == 1);
    assert!(b3[0] == (bpp_code(dpi) << 4) | bpp_code(dbi));
    untouched(&b3, &old, 1);
    assert!(PixelFormat::with_all(dpi).as_u8() == (bpp_code(dpi) << 4) | bpp_code(dpi));
    // parameterless commands: MIPI opcode table
    let mut b4 = old;
    assert!(SoftReset.instruction() == 0x01 && SoftReset.fill_params_buf(&mut b4) == 0);
    assert!(EnterSleepMode.instruction() == 0x10 && EnterSleepMode.fill_params_buf(&mut b4) == 0);
    assert!(ExitSleepMode.instruction() == 0x11 && ExitSleepMode.fill_params_buf(&mut b4) == 0);
    assert!(EnterPartialMode.instruction() == 0x12 && EnterPartialMode.fill_params_buf(&mut b4) == 0);
    assert!(EnterNormalMode.instruction() == 0x13 && EnterNormalMode.fill_params_buf(&mut b4) == 0);
    assert!(SetDisplayOff.instruction() == 0x28 && SetDisplayOff.fill_params_buf(&mut b4) == 0);
    assert!(SetDisplayOn.instruction() == 0x29 && SetDisplayOn.fill_params_buf(&mut b4) == 0);
    assert!(ExitIdleMode.instruction() == 0x38 && ExitIdleMode.fill_params_buf(&mut b4) == 0);
    assert!(EnterIdleMode.instruction() == 0x39 && EnterIdleMode.fill_params_buf(&mut b4) == 0);
    assert!(WriteMemoryStart.instruction() == 0x2C && WriteMemoryStart.fill_params_buf(&mut b4) == 0);
    assert!(b4 == old);
}

/// write_command / write_raw put exactly opcode + bytes on the bus (loop-free today; the unwinding bound only turns a change that
/// introduces a copy loop into a verdict or an unwinding failure instead of a time-out)
#[kani::proof]
#[kani::unwind(30)]
fn c18_write_raw_passthrough() {
    let clock = Clock::new();
    let mut di: RecIface<u8, 0> = RecIface::new(&clock);
    let instr: u8 = kani::any();
    // up to 24 parameter bytes (longer than any buffer the crate uses internally); the recorder keeps the first 8 and the length
    let p: [u8; 24] = kani::any();
    let n: usize = kani::any();
    kani::assume(n <= 24);
    assert!(di.write_raw(instr, &p[..n]).is_ok());
    let c = di.cmd(0);
    kani::assert(di.ncmd == 1 && c.op == instr && c.len == n, "C18: write_raw must pass the instruction and ALL parameter bytes through");
    let i: usize = kani::any();
    kani::assume(i < n && i < 8);
    kani::assert(c.p[i] == p[i], "C18: write_raw parameter bytes in order");
    let (s, e): (u16, u16) = (kani::any(), kani::any());
    assert!(di.write_command(SetColumnAddress::new(s, e)).is_ok());
    let c = di.cmd(1);
    assert!(di.ncmd == 2 && c.op == 0x2A && c.len == 4 && c.p[0..2] == be(s) && c.p[2..4] == be(e));
    assert!(di.px_calls == 0);
}
