//! C03 / C20 harnesses on the batching iterators alone (child of `batch`).
extern crate std;
#[allow(unused_imports)]
use std::{vec, vec::Vec};
use super::*;
#[allow(unused_imports)]
use embedded_hal::digital::OutputPin;
#[allow(unused_imports)]
use embedded_graphics_core::{prelude::*, Pixel};
#[allow(unused_imports)]
use crate::{interface::{Interface, InterfacePixelFormat}, models::Model, Display};
use embedded_graphics_core::geometry::Point;
use embedded_graphics_core::pixelcolor::raw::RawU16;
use embedded_graphics_core::pixelcolor::Rgb565;

fn colour(v: u16) -> Rgb565 { Rgb565::from(RawU16::new(v)) }

/// bounded: 3 pixels with arbitrary non-negative u16 coordinates: the rows, read left to right in emission order, are
/// exactly the pixels in stream order (nothing dropped, duplicated, recoloured or reordered), and every row is maximal
#[kani::proof]
#[kani::unwind(6)]
fn c03_rows_conserve_pixels_3() {
    let p: [(u16, u16, u16); 3] = kani::any();
    let n: usize = kani::any();
    kani::assume(n <= 3);
    kani::assume(p[0].0 < 65535 && p[1].0 < 65535 && p[2].0 < 65535);
    let px = [Pixel(Point::new(p[0].0 as i32, p[0].1 as i32), colour(p[0].2)), Pixel(Point::new(p[1].0 as i32, p[1].1 as i32), colour(p[1].2)),
              Pixel(Point::new(p[2].0 as i32, p[2].1 as i32), colour(p[2].2))];
    let mut rows = to_rows(px.into_iter().take(n));
    let mut k = 0usize;     // pixels accounted for
    let mut nrows = 0usize;
    let mut guard = 0;
    while guard < 4 {
        guard += 1;
        match rows.next() {
            None => break,
            Some(r) => {
                nrows += 1;
                kani::assert(r.colors.len() >= 1 && r.x_right as usize == r.x_left as usize + r.colors.len() - 1, "C03: malformed row");
                let mut i = 0;
                while i < r.colors.len() {
                    kani::assert(k < n, "C03: more pixels out than in");
                    kani::assert(p[k].0 as usize == r.x_left as usize + i && p[k].1 == r.y && colour(p[k].2) == r.colors[i], "C03: pixel dropped, recoloured or reordered by row batching");
                    k += 1;
                    i += 1;
                }
                // maximality (C20): the next pixel, if any, is not adjacent to this row
                if k < n {
                    kani::assert(!(p[k].1 == r.y && p[k].0 == r.x_right + 1), "C20: an adjacent same-row pixel started a new row below the row capacity");
                }
            }
        }
    }
    kani::assert(k == n, "C03: trailing partial row lost");
    kani::assert(nrows <= n, "C20: more rows than pixels");
}

/// bounded (one concrete input): three stacked rows of width 40 (so the third row does not fit the 100-colour block any more):
/// every block is a full rectangle within the capacity, rows are never split, and every row's colours arrive once, in order
#[kani::proof]
#[kani::unwind(122)]
fn c03_block_capacity_rows() {
    // concrete geometry (symbolic positions / widths make CBMC run for more than 30 minutes on the 100-colour vector)
    let w: usize = 40;
    let (x0, y0): (u16, u16) = (7, 9);
    // the rows come from the real RowIterator (3 x 40 pixels, row-major), so the harness does not depend on the field list of PixelRow
    let mut n = 0u16;
    let pixels = core::iter::from_fn(move || {
        if n < 120 { let (k, i) = (n / 40, n % 40); n += 1; Some(Pixel(Point::new((x0 + i) as i32, (y0 + k) as i32), colour(k * 64 + i))) } else { None }
    });
    let mut blocks = to_blocks(to_rows(pixels));
    let mut k = 0usize;    // rows accounted for
    let mut guard = 0;
    let probe: usize = 13;
    while guard < 4 {
        guard += 1;
        match blocks.next() {
            None => break,
            Some(b) => {
                let bw = b.x_right as usize - b.x_left as usize + 1;
                let bh = b.y_bottom as usize - b.y_top as usize + 1;
                kani::assert(b.colors.len() == bw * bh && b.colors.len() <= 100, "C03: C08: block colours do not fill its window exactly");
                kani::assert(bw == w && b.x_left == x0 && b.y_top as usize == y0 as usize + k, "C03: C08: block window does not start at the next row");
                let mut r = 0;
                while r < bh && r < 3 {
                    kani::assert(k < 3, "C03: more rows out than in");
                    if b.colors.len() == bw * bh { kani::assert(b.colors[r * bw + probe] == colour(k as u16 * 64 + probe as u16), "C03: colours of a row misplaced in the block"); }
                    k += 1;
                    r += 1;
                }
            }
        }
    }
    kani::assert(k == 3, "C03: a row was lost at the block capacity");
}
