//! C05 harnesses (child of `interface`: sees the private conversion functions).
extern crate std;
#[allow(unused_imports)]
use std::{vec, vec::Vec};
use super::*;
#[allow(unused_imports)]
use embedded_graphics_core::pixelcolor::{Rgb565, Rgb666, RgbColor};
#[allow(unused_imports)]
use crate::interface::{Interface, InterfaceKind, InterfacePixelFormat};
use crate::vk_support::*;
use embedded_graphics_core::pixelcolor::raw::{RawU16, RawU24};
use embedded_graphics_core::prelude::RawData;

/// RGB565: two bytes most-significant first / one 16-bit word, for all 65 536 values; decoding returns the colour
#[kani::proof]
fn c05_rgb565_all_values() {
    let v: u16 = kani::any();
    let c = Rgb565::from(RawU16::new(v));
    // the colour's channels are the fields of the raw value (ties the uninterpreted `raw565` of the Verus contracts to e-g)
    assert!(c.r() as u16 == v >> 11 && c.g() as u16 == (v >> 5) & 0x3f && c.b() as u16 == v & 0x1f);
    let b = rgb565_to_bytes(c);
    kani::assert(b == [(v >> 8) as u8, (v & 0xff) as u8], "C05: RGB565 must go out as two bytes, most significant first");
    kani::assert(b[0] == (c.r() << 3) | (c.g() >> 3) && b[1] == ((c.g() & 7) << 5) | c.b(), "C05: RRRRRGGG GGGBBBBB");
    let w = rgb565_to_u16(c);
    kani::assert(w == [v], "C05: RGB565 on a 16-bit bus is one word");
    kani::assert(Rgb565::from(RawU16::new(u16::from_be_bytes(b))) == c, "C05: decoding returns the drawn colour");
}

/// RGB666: three bytes R,G,B, six bits left-aligned, for all 262 144 values
#[kani::proof]
fn c05_rgb666_all_values() {
    let v: u32 = kani::any();
    kani::assume(v < (1 << 18));
    let c = Rgb666::from(RawU24::new(v));
    assert!(c.r() as u32 == v >> 12 && c.g() as u32 == (v >> 6) & 0x3f && c.b() as u32 == v & 0x3f);
    let b = rgb666_to_bytes(c);
    kani::assert(b == [c.r() << 2, c.g() << 2, c.b() << 2], "C05: RGB666 must go out as R,G,B with the six bits left-aligned");
    assert!(b[0] & 3 == 0 && b[1] & 3 == 0 && b[2] & 3 == 0);
    let back = Rgb666::from(RawU24::new(((b[0] as u32 >> 2) << 12) | ((b[1] as u32 >> 2) << 6) | (b[2] as u32 >> 2)));
    kani::assert(back == c, "C05: decoding returns the drawn colour");
}

/// a solid fill encodes a colour identically to a per-pixel stream, on every bus width the type supports
#[kani::proof]
fn c05_fill_and_stream_encode_identically() {
    let clock = Clock::new();
    let v: u16 = kani::any();
    let c = Rgb565::from(RawU16::new(v));
    let n: u32 = kani::any();
    // 8-bit bus
    let mut di: RecIface<u8, 0> = RecIface::new(&clock);
    assert!(<Rgb565 as InterfacePixelFormat<u8>>::send_pixels(&mut di, core::iter::once(c)).is_ok());
    kani::assert(di.px_words == 2 && di.px_count == 1 && di.px_first3 == [Some((v >> 8) as u8), Some(v as u8), None], "C05: stream encoding (u8)");
    let s = di.px_first3;
    assert!(<Rgb565 as InterfacePixelFormat<u8>>::send_repeated_pixel(&mut di, c, n).is_ok());
    kani::assert(di.repeated && di.px_count == n as u64 && di.px_first3 == s, "C05: fill encoding differs from stream encoding (u8)");
    // 16-bit bus
    let mut d16: RecIface<u16, 2> = RecIface::new(&clock);
    assert!(<Rgb565 as InterfacePixelFormat<u16>>::send_pixels(&mut d16, core::iter::once(c)).is_ok());
    kani::assert(d16.px_words == 1 && d16.px_first3 == [Some(v), None, None], "C05: stream encoding (u16)");
    assert!(<Rgb565 as InterfacePixelFormat<u16>>::send_repeated_pixel(&mut d16, c, n).is_ok());
    kani::assert(d16.px_count == n as u64 && d16.px_first3 == [Some(v), None, None], "C05: fill encoding (u16)");
    // RGB666
    let v6: u32 = kani::any();
    kani::assume(v6 < (1 << 18));
    let c6 = Rgb666::from(RawU24::new(v6));
    let want = [Some(((v6 >> 12) as u8) << 2), Some((((v6 >> 6) & 0x3f) as u8) << 2), Some(((v6 & 0x3f) as u8) << 2)];
    let mut d6: RecIface<u8, 1> = RecIface::new(&clock);
    assert!(<Rgb666 as InterfacePixelFormat<u8>>::send_pixels(&mut d6, core::iter::once(c6)).is_ok());
    kani::assert(d6.px_words == 3 && d6.px_first3 == want, "C05: stream encoding (rgb666)");
    assert!(<Rgb666 as InterfacePixelFormat<u8>>::send_repeated_pixel(&mut d6, c6, n).is_ok());
    kani::assert(d6.px_count == n as u64 && d6.px_first3 == want, "C05: fill encoding (rgb666)");
}

/// COLMOD codes announced for the colour types (BitsPerPixel::from_rgb_color is a const fn over e-g constants)
#[kani::proof]
fn c05_bpp_from_rgb_color() {
    use crate::dcs::{BitsPerPixel, PixelFormat};
    assert!(BitsPerPixel::from_rgb_color::<Rgb565>() == BitsPerPixel::Sixteen);
    assert!(BitsPerPixel::from_rgb_color::<Rgb666>() == BitsPerPixel::Eighteen);
    assert!(PixelFormat::with_all(BitsPerPixel::from_rgb_color::<Rgb565>()).as_u8() == 0x55);
    assert!(PixelFormat::with_all(BitsPerPixel::from_rgb_color::<Rgb666>()).as_u8() == 0x66);
}
