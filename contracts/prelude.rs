// Shared specification vocabulary (DESIGN.md section 3).  Ghost only: spec fns, proof fns and
// external specifications of dependency items.  Nothing in this file is driver code.
pub mod vf {
use vstd::prelude::*;
use vstd::std_specs::iter::IteratorSpec;
use embedded_hal::digital::{OutputPin, ErrorType};
use embedded_hal::delay::DelayNs;
use embedded_graphics_core::pixelcolor::{PixelColor, RgbColor, Rgb565, Rgb666};
use embedded_graphics_core::geometry::{Point, Size};
use embedded_graphics_core::primitives::Rectangle;
use crate::options::{Orientation, Rotation, ColorOrder, RefreshOrder, VerticalRefreshOrder, HorizontalRefreshOrder, ModelOptions};

// ------------------------------------------------------------------ external trait specifications
#[verifier::external_trait_specification]
pub trait ExHalError: core::fmt::Debug {
    type ExternalTraitSpecificationFor: embedded_hal::digital::Error;
}
#[verifier::external_trait_specification]
pub trait ExErrorType {
    type ExternalTraitSpecificationFor: ErrorType;
    type Error: embedded_hal::digital::Error;
}
#[verifier::external_trait_specification]
pub trait ExSpiError: core::fmt::Debug {
    type ExternalTraitSpecificationFor: embedded_hal::spi::Error;
}
#[verifier::external_trait_specification]
pub trait ExSpiErrorType {
    type ExternalTraitSpecificationFor: embedded_hal::spi::ErrorType;
    type Error: embedded_hal::spi::Error;
}
/// One `SpiDevice::write` call: the words handed to the device and whether it reported success.
pub struct SpiWrite<W> { pub bytes: Seq<W>, pub ok: bool }
#[verifier::external_trait_specification]
#[verifier::external_trait_extension(SpiDeviceSpec via SpiDeviceSpecImpl)]
pub trait ExSpiDevice<Word: Copy + 'static>: embedded_hal::spi::ErrorType {
    type ExternalTraitSpecificationFor: embedded_hal::spi::SpiDevice<Word>;
    spec fn writes(&self) -> Seq<SpiWrite<Word>>;
    fn write(&mut self, buf: &[Word]) -> (r: Result<(), Self::Error>)
        ensures final(self).writes() == old(self).writes().push(SpiWrite { bytes: buf@, ok: r is Ok });
}
/// One `OutputPin` call.
pub struct PinOp { pub high: bool, pub ok: bool }
#[verifier::external_trait_specification]
#[verifier::external_trait_extension(OutputPinSpec via OutputPinSpecImpl)]
pub trait ExOutputPin: ErrorType {
    type ExternalTraitSpecificationFor: OutputPin;
    spec fn ops(&self) -> Seq<PinOp>;
    fn set_low(&mut self) -> (r: Result<(), Self::Error>)
        ensures final(self).ops() == old(self).ops().push(PinOp { high: false, ok: r.is_ok() });
    fn set_high(&mut self) -> (r: Result<(), Self::Error>)
        ensures final(self).ops() == old(self).ops().push(PinOp { high: true, ok: r.is_ok() });
}
#[verifier::external_trait_specification]
#[verifier::external_trait_extension(DelaySpec via DelaySpecImpl)]
pub trait ExDelayNs {
    type ExternalTraitSpecificationFor: DelayNs;
    spec fn elapsed(&self) -> nat;
    fn delay_ns(&mut self, ns: u32)
        ensures final(self).elapsed() == old(self).elapsed() + ns;
    fn delay_us(&mut self, us: u32)
        ensures final(self).elapsed() == old(self).elapsed() + us * 1000;
    fn delay_ms(&mut self, ms: u32)
        ensures final(self).elapsed() == old(self).elapsed() + ms * 1000000;
}
#[verifier::external_trait_specification]
pub trait ExPixelColor: Copy + PartialEq {
    type ExternalTraitSpecificationFor: PixelColor;
}
#[verifier::external_trait_specification]
pub trait ExRgbColor: PixelColor {
    type ExternalTraitSpecificationFor: RgbColor;
}
#[verifier::external_type_specification]
#[verifier::external_body]
pub struct ExRgb565(Rgb565);
#[verifier::external_type_specification]
#[verifier::external_body]
pub struct ExRgb666(Rgb666);

#[verifier::external_type_specification]
#[verifier::external_body]
pub struct ExNoResetPin(crate::builder::NoResetPin);

// ---------------------------------------------------------------- embedded-graphics-core geometry
#[verifier::external_type_specification]
pub struct ExPoint(Point);
#[verifier::external_type_specification]
pub struct ExSize(Size);
#[verifier::external_type_specification]
pub struct ExRectangle(Rectangle);
#[verifier::external_type_specification]
#[verifier::reject_recursive_types(C)]
pub struct ExPixel<C: PixelColor>(embedded_graphics_core::Pixel<C>);

/// e-g's own validity of a rectangle: `top_left + size` must not overflow i32 (otherwise e-g itself
/// debug-asserts / overflows inside `bottom_right()` before the driver runs).
pub open spec fn rect_valid(r: Rectangle) -> bool {
    r.size.width <= 0x7fff_ffff && r.size.height <= 0x7fff_ffff
    && r.top_left.x + r.size.width <= 0x7fff_ffff && r.top_left.y + r.size.height <= 0x7fff_ffff
}
pub open spec fn rect_nonempty(r: Rectangle) -> bool { r.size.width > 0 && r.size.height > 0 }
pub open spec fn rect_right(r: Rectangle) -> int { r.top_left.x + r.size.width - 1 }
pub open spec fn rect_bottom(r: Rectangle) -> int { r.top_left.y + r.size.height - 1 }
pub open spec fn rect_contains(r: Rectangle, x: int, y: int) -> bool {
    r.top_left.x <= x <= rect_right(r) && r.top_left.y <= y <= rect_bottom(r)
}
pub open spec fn imax(a: int, b: int) -> int { if a >= b { a } else { b } }
pub open spec fn imin(a: int, b: int) -> int { if a <= b { a } else { b } }
pub open spec fn rects_overlap(a: Rectangle, b: Rectangle) -> bool {
    rect_nonempty(a) && rect_nonempty(b)
    && imax(a.top_left.x as int, b.top_left.x as int) <= imin(rect_right(a), rect_right(b))
    && imax(a.top_left.y as int, b.top_left.y as int) <= imin(rect_bottom(a), rect_bottom(b))
}
/// Set-theoretic meaning of `Rectangle::intersection` on valid rectangles (discharged by Kani on the
/// real embedded-graphics-core code for all i32/u32 inputs satisfying `rect_valid`).
pub assume_specification [Rectangle::intersection] (a: &Rectangle, b: &Rectangle) -> (r: Rectangle)
    requires rect_valid(*a), rect_valid(*b),
    ensures
        rect_valid(r),
        rects_overlap(*a, *b) ==> rect_nonempty(r)
            && r.top_left.x == imax(a.top_left.x as int, b.top_left.x as int)
            && r.top_left.y == imax(a.top_left.y as int, b.top_left.y as int)
            && rect_right(r) == imin(rect_right(*a), rect_right(*b))
            && rect_bottom(r) == imin(rect_bottom(*a), rect_bottom(*b)),
        !rects_overlap(*a, *b) ==> !rect_nonempty(r),
        // identical result when nothing is clipped (what `&intersection == area` tests)
        rects_overlap(*a, *b) && rect_contains(*b, a.top_left.x as int, a.top_left.y as int) && rect_contains(*b, rect_right(*a), rect_bottom(*a)) ==> r == *a;
pub assume_specification [Rectangle::bottom_right] (a: &Rectangle) -> (r: Option<Point>)
    requires rect_valid(*a),
    ensures
        rect_nonempty(*a) ==> r == Some(Point { x: rect_right(*a) as i32, y: rect_bottom(*a) as i32 }),
        !rect_nonempty(*a) ==> r is None;
pub assume_specification [Rectangle::contains] (a: &Rectangle, p: Point) -> (r: bool)
    requires rect_valid(*a),
    ensures r == rect_contains(*a, p.x as int, p.y as int);
pub assume_specification [Size::new] (w: u32, h: u32) -> (r: Size)
    ensures r == (Size { width: w, height: h });
pub assume_specification [<Rectangle as core::cmp::PartialEq>::eq] (a: &Rectangle, b: &Rectangle) -> (r: bool)
    ensures r == (*a == *b);

#[verifier::external_trait_specification]
#[verifier::external_trait_extension(OriginDimensionsSpec via OriginDimensionsSpecImpl)]
pub trait ExOriginDimensions {
    type ExternalTraitSpecificationFor: embedded_graphics_core::geometry::OriginDimensions;
    spec fn spec_size(&self) -> Size;
    fn size(&self) -> (r: Size)
        ensures r == self.spec_size();
}
#[verifier::external_trait_specification]
pub trait ExDimensions {
    type ExternalTraitSpecificationFor: embedded_graphics_core::geometry::Dimensions;
    fn bounding_box(&self) -> Rectangle;
}
/// e-g's blanket `impl<T: OriginDimensions> Dimensions for T`: `Rectangle::new(Point::zero(), self.size())`
pub assume_specification<T: embedded_graphics_core::geometry::OriginDimensions> [<T as embedded_graphics_core::geometry::Dimensions>::bounding_box] (s: &T) -> (r: Rectangle)
    ensures r == (Rectangle { top_left: Point { x: 0, y: 0 }, size: s.spec_size() });

#[verifier::external_trait_specification]
#[verifier::external_trait_extension(DrawTargetSpec via DrawTargetSpecImpl)]
pub trait ExDrawTarget: embedded_graphics_core::geometry::Dimensions {
    type ExternalTraitSpecificationFor: embedded_graphics_core::draw_target::DrawTarget;
    type Color: PixelColor;
    type Error;
    /// the target's own well-formedness (for `Display`: its representation invariant)
    spec fn dt_wf(&self) -> bool;
    fn draw_iter<I>(&mut self, pixels: I) -> Result<(), Self::Error>
        where I: IntoIterator<Item = embedded_graphics_core::Pixel<Self::Color>>
        requires old(self).dt_wf(), iter_lawful(pixels);
    fn fill_contiguous<I>(&mut self, area: &Rectangle, colors: I) -> Result<(), Self::Error>
        where I: IntoIterator<Item = Self::Color>
        requires old(self).dt_wf(), rect_valid(*area), area.size.width * area.size.height < 0x1_0000_0000, iter_lawful(colors);
    fn fill_solid(&mut self, area: &Rectangle, color: Self::Color) -> Result<(), Self::Error>
        requires old(self).dt_wf(), rect_valid(*area), area.size.width * area.size.height < 0x1_0000_0000;
}

/// `Result::and` evaluates its argument eagerly (it is an ordinary call) and keeps the first error
pub assume_specification<T, E, U> [Result::<T, E>::and] (a: Result<T, E>, b: Result<U, E>) -> (r: Result<U, E>)
    ensures r == (match a { Ok(_) => b, Err(e) => Err::<U, E>(e) });
pub assume_specification [u16::abs_diff] (a: u16, b: u16) -> (r: u16)
    ensures r as int == (if a >= b { a - b } else { b - a });
pub assume_specification [u32::abs_diff] (a: u32, b: u32) -> (r: u32)
    ensures r as int == (if a >= b { a - b } else { b - a });
pub assume_specification [i32::unsigned_abs] (a: i32) -> (r: u32)
    ensures r as int == (if a >= 0 { a as int } else { -(a as int) });
pub assume_specification [i32::abs_diff] (a: i32, b: i32) -> (r: u32)
    ensures r as int == (if a >= b { a - b } else { b - a });
/// R24: `n.try_into().unwrap()` for u32 -> usize; cannot fail where usize has at least 32 bits (here: 64, `global size_of usize == 8`)
#[verifier::external_body]
pub fn u32_to_usize(n: u32) -> (r: usize) ensures r == n { n.try_into().unwrap() }
pub assume_specification [i32::rem_euclid] (a: i32, b: i32) -> (r: i32)
    requires b > 0,
    ensures r as int == (a as int) % (b as int);

#[verifier::external_type_specification]
#[verifier::external_body]
#[verifier::reject_recursive_types(T)]
pub struct ExOnce<T>(core::iter::Once<T>);
pub assume_specification<T> [core::iter::once] (v: T) -> (r: core::iter::Once<T>)
    ensures r.obeys_prophetic_iter_laws(), r.decrease() is Some, r.remaining() == seq![v];

// ------------------------------------------------------------------------- iterators and slices
#[verifier::external_type_specification]
#[verifier::external_body]
#[verifier::reject_recursive_types(T)]
pub struct ExChunksExactMut<'a, T: 'a>(core::slice::ChunksExactMut<'a, T>);

#[verifier::external_type_specification]
#[verifier::external_body]
#[verifier::reject_recursive_types(T)]
pub struct ExArrayIntoIter<T, const N: usize>(core::array::IntoIter<T, N>);

/// `<[T]>::chunks_exact_mut` (std): chunk i aliases s[i*n .. i*n+n]; what is written through the chunks is what the
/// slice holds afterwards; the tail beyond the last whole chunk is untouched.  Assumed (std contract); cross-checked
/// by the bounded Kani transport harnesses.
pub assume_specification<'a, T> [<[T]>::chunks_exact_mut] (s: &'a mut [T], n: usize) -> (it: core::slice::ChunksExactMut<'a, T>)
    requires n != 0
    ensures
        it.obeys_prophetic_iter_laws(),
        it.decrease() is Some,
        it.remaining().len() == old(s)@.len() / (n as nat),
        forall|i: int| 0 <= i < it.remaining().len() ==> (*#[trigger] it.remaining()[i])@ == old(s)@.subrange(i * n, i * n + n),
        final(s)@.len() == old(s)@.len(),
        forall|k: int| 0 <= k < old(s)@.len() ==> #[trigger] final(s)@[k] ==
            (if k < (old(s)@.len() / (n as nat)) * n { (*final(it.remaining()[k / (n as int)]))@[k % (n as int)] } else { old(s)@[k] }),
;
/// R15: `chunk.try_into().unwrap()` for `&mut [T] -> &mut [T; N]`; the precondition is the proof that it cannot panic.
#[verifier::external_body]
pub fn slice_as_array_mut<'a, T, const N: usize>(s: &'a mut [T]) -> (r: &'a mut [T; N])
    requires old(s)@.len() == N
    ensures (*r)@ == old(s)@, final(s)@ == (*final(r))@
{ s.try_into().unwrap() }
/// R16: `core::cmp::min` on u32
#[verifier::external_body]
pub fn min_u32(a: u32, b: u32) -> (r: u32) ensures r == (if a <= b { a } else { b }) { core::cmp::min(a, b) }

/// "the value is a finite, lawful stream": what `for all finite sequences` means formally (input assumption)
pub uninterp spec fn iter_lawful<T: IntoIterator>(t: T) -> bool;
/// the items the stream yields (prophetic: the items that will be consumed)
#[verifier::prophetic]
pub uninterp spec fn iter_yields<T: IntoIterator>(t: T) -> Seq<T::Item>;
/// the stream will be consumed up to its end
#[verifier::prophetic]
pub uninterp spec fn iter_ends<T: IntoIterator>(t: T) -> bool;
/// R9: `X.into_iter()` for a value of generic `impl IntoIterator` type (vstd gives the generic call no postcondition).
#[verifier::external_body]
pub fn into_iter<T: IntoIterator>(t: T) -> (r: T::IntoIter)
    requires iter_lawful(t)
    ensures r.obeys_prophetic_iter_laws(), r.decrease() is Some, r.remaining() == iter_yields(t), r.will_return_none() == iter_ends(t)
{ t.into_iter() }
/// R13 (mode `array`): `for x in <array by value>`; A-array-iter: yields the elements in order, then ends (core; assumed)
#[verifier::external_body]
pub fn array_into_iter<T, const N: usize>(a: [T; N]) -> (r: core::array::IntoIter<T, N>)
    ensures r.obeys_prophetic_iter_laws(), r.decrease() is Some, r.remaining() == a@
{ a.into_iter() }
/// R20: `it.map(f)` with the facts vstd's `map_postcondition` states, as the contract of a wrapper (A-map: core's Map
/// adapter applies f to every item in order and ends when the source ends).  Used because this Verus resolves the
/// IteratorSpec of `Map<..>` unreliably; the trust is the same as for vstd's own Map specification.
#[verifier::external_body]
pub fn map_lawful<I: Iterator, B, F: Fn(I::Item) -> B>(it: I, f: F) -> (r: core::iter::Map<I, F>)
    requires it.obeys_prophetic_iter_laws(), it.decrease() is Some, forall|x: I::Item| call_requires(f, (x,)),
    ensures
        iter_lawful(r),
        iter_yields(r).len() <= it.remaining().len(),
        forall|k: int| 0 <= k < iter_yields(r).len() ==> call_ensures(f, (it.remaining()[k],), #[trigger] iter_yields(r)[k]),
        iter_ends(r) ==> iter_yields(r).len() == it.remaining().len() && it.will_return_none(),
{ it.map(f) }
/// the predicate "lies inside rectangle r" on pixels (the bounding-box filter of draw_iter)
pub open spec fn in_rect<C: PixelColor>(r: Rectangle) -> spec_fn(embedded_graphics_core::Pixel<C>) -> bool {
    |p: embedded_graphics_core::Pixel<C>| rect_contains(r, p.0.x as int, p.0.y as int)
}
/// R27: `it.filter(p)` as a wrapper with the contract of core's Filter adapter (A-filter: yields exactly the items of the
/// source, in order, for which the predicate returns true, and ends when the source ends).  The predicate must be a
/// function of its argument (its `ensures` decides the result).  Assumed; cross-checked by the Kani one-pixel harnesses.
#[verifier::external_body]
pub fn filter_lawful<I: Iterator, F: FnMut(&I::Item) -> bool>(it: I, f: F, Ghost(pred): Ghost<spec_fn(I::Item) -> bool>) -> (r: core::iter::Filter<I, F>)
    requires it.obeys_prophetic_iter_laws(), it.decrease() is Some,
        forall|x: I::Item| call_requires(f, (&x,)),
        forall|x: I::Item, b: bool| #![trigger call_ensures(f, (&x,), b)] call_ensures(f, (&x,), b) ==> b == pred(x),
    ensures
        iter_lawful(r),
        iter_yields(r) == it.remaining().filter(pred),
        iter_ends(r) == it.will_return_none(),
{ it.filter(f) }
/// R18: `(0..count).map(|_| pixel)`; A-map-const: yields `count` copies of the value and then ends (core's Range and
/// Map; assumed, cross-checked by the bounded Kani harness c07_send_repeated_pixel_bounded)
#[verifier::external_body]
pub fn repeat_n<T: Copy>(count: u32, v: T) -> (r: impl Iterator<Item = T>)
    ensures iter_lawful(r), iter_yields(r) == Seq::new(count as nat, |i: int| v)
{ (0..count).map(move |_| v) }
pub proof fn lemma_flat_const<W, const N: usize>(pixel: [W; N], cnt: int)
    requires cnt >= 0, N > 0
    ensures flat(Seq::new(cnt as nat, |i: int| pixel)) == rep(pixel, cnt)
{
    let l = flat(Seq::new(cnt as nat, |i: int| pixel));
    let r = rep(pixel, cnt);
    assert(l.len() == r.len());
    assert forall|k: int| 0 <= k < l.len() implies l[k] == r[k] by {
        let j = k / (N as int);
        assert(0 <= j < cnt) by(nonlinear_arith) requires 0 <= k < cnt * N, N > 0, j == k / (N as int);
    }
    assert(l =~= r);
}
/// A-yields: for a value that already is an iterator, `into_iter` is the identity (core's blanket impl)
#[verifier::external_body]
pub broadcast proof fn axiom_iter_is_into_iter<I: Iterator>(i: I)
    ensures #[trigger] iter_lawful(i) == (i.obeys_prophetic_iter_laws() && i.decrease() is Some), iter_yields(i) == i.remaining(), iter_ends(i) == i.will_return_none()
{}
pub proof fn lemma_skip_step<T>(s: Seq<T>, a: int)
    requires 0 <= a < s.len()
    ensures s.skip(a).drop_first() == s.skip(a + 1), s.skip(a)[0] == s[a], s.skip(a).len() == s.len() - a
{
    assert(s.skip(a).drop_first() =~= s.skip(a + 1));
}

// ------------------------------------------------------------------------------- heapless::Vec (batch.rs)
#[verifier::external_type_specification]
#[verifier::external_body]
#[verifier::accept_recursive_types(T)]
pub struct ExHVec<T, const N: usize>(heapless::Vec<T, N>);
/// sequence view of a heapless vector (capacity N).  The contracts below are the documented behaviour of heapless 0.8
/// (assumed; the Kani batch harnesses execute the real crate).
pub uninterp spec fn hv<T, const N: usize>(v: heapless::Vec<T, N>) -> Seq<T>;
#[verifier::external_body]
pub broadcast proof fn axiom_hv_len<T, const N: usize>(v: heapless::Vec<T, N>)
    ensures #[trigger] hv(v).len() <= N
{}
/// A-hv-model: a heapless vector is determined by its contents (the uninitialised tail is unobservable), and every
/// sequence of at most N items is the content of some vector.  Assumed model of the opaque library type.
pub uninterp spec fn hv_mk<T, const N: usize>(s: Seq<T>) -> heapless::Vec<T, N>;
#[verifier::external_body]
pub broadcast proof fn axiom_hv_mk<T, const N: usize>(s: Seq<T>)
    requires s.len() <= N
    ensures hv(#[trigger] hv_mk::<T, N>(s)) == s
{}
#[verifier::external_body]
pub proof fn axiom_hv_ext<T, const N: usize>(a: heapless::Vec<T, N>, b: heapless::Vec<T, N>)
    requires hv(a) == hv(b)
    ensures a == b
{}
/// A-hv-iter: a heapless vector by value is a finite lawful stream of its contents (heapless' IntoIterator; assumed)
#[verifier::external_body]
pub broadcast proof fn axiom_hv_into_iter<T, const N: usize>(v: heapless::Vec<T, N>)
    ensures #[trigger] iter_lawful(v), iter_yields(v) == hv(v)
{}
pub assume_specification<T, const N: usize> [heapless::Vec::<T, N>::new] () -> (r: heapless::Vec<T, N>)
    ensures hv(r) == Seq::<T>::empty();
pub assume_specification<T, const N: usize> [heapless::Vec::<T, N>::clear] (v: &mut heapless::Vec<T, N>)
    ensures hv(*final(v)) == Seq::<T>::empty();
pub assume_specification<T, const N: usize> [heapless::Vec::<T, N>::push] (v: &mut heapless::Vec<T, N>, item: T) -> (r: Result<(), T>)
    ensures
        hv(*old(v)).len() < N ==> r is Ok && hv(*final(v)) == hv(*old(v)).push(item),
        hv(*old(v)).len() >= N ==> r == Err::<(), T>(item) && hv(*final(v)) == hv(*old(v));
pub assume_specification<T: Clone, const N: usize> [heapless::Vec::<T, N>::extend_from_slice] (v: &mut heapless::Vec<T, N>, other: &[T]) -> (r: Result<(), ()>)
    ensures
        hv(*old(v)).len() + other@.len() <= N ==> r is Ok && hv(*final(v)) == hv(*old(v)) + other@,
        hv(*old(v)).len() + other@.len() > N ==> r is Err && hv(*final(v)) == hv(*old(v));
pub assume_specification<T: Clone, const N: usize> [<heapless::Vec<T, N> as Clone>::clone] (v: &heapless::Vec<T, N>) -> (r: heapless::Vec<T, N>)
    ensures hv(r) == hv(*v);
pub assume_specification<T, const N: usize> [heapless::Vec::<T, N>::is_full] (v: &heapless::Vec<T, N>) -> (r: bool)
    ensures r == (hv(*v).len() == N);
pub assume_specification<T, const N: usize> [heapless::Vec::<T, N>::capacity] (v: &heapless::Vec<T, N>) -> (r: usize)
    ensures r == N;
pub assume_specification<T, const N: usize> [<heapless::Vec<T, N> as core::ops::Deref>::deref] (v: &heapless::Vec<T, N>) -> (r: &[T])
    ensures r@ == hv(*v);

/// the pixel bursts as word sequences
pub open spec fn px_words<W, const N: usize>(s: Seq<[W; N]>) -> Seq<Seq<W>> { Seq::new(s.len(), |i: int| s[i]@) }
pub proof fn lemma_mapped_words<C, W, const N: usize>(src: Seq<C>, out: Seq<[W; N]>, enc: spec_fn(C) -> Seq<W>)
    requires out.len() == src.len(), forall|k: int| 0 <= k < out.len() ==> (#[trigger] out[k])@ == enc(src[k]),
    ensures Seq::new(out.len(), |i: int| out[i]@) == Seq::new(src.len(), |i: int| enc(src[i])),
{
    assert(Seq::new(out.len(), |i: int| out[i]@) =~= Seq::new(src.len(), |i: int| enc(src[i])));
}
/// hook used by R20: nothing to prove here, the facts come from vstd's map_postcondition; kept as the single place where
/// the two prophetic sequences of a `.map(f)` are named
pub proof fn lemma_map_enc<A, B>(a: Seq<A>, b: Seq<B>) {}

// ---------------------------------------------------------------------------- SPI byte stream (C06)
/// all words of the writes from position `from` on, concatenated
pub open spec fn written<W>(w: Seq<SpiWrite<W>>, from: int) -> Seq<W>
    decreases w.len()
{
    if w.len() <= from || w.len() == 0 { Seq::empty() } else { written(w.drop_last(), from) + w.last().bytes }
}
pub open spec fn all_ok<W>(w: Seq<SpiWrite<W>>, from: int) -> bool { forall|i: int| from <= i < w.len() ==> (#[trigger] w[i]).ok }
pub proof fn lemma_written_push<W>(w: Seq<SpiWrite<W>>, from: int, x: SpiWrite<W>)
    requires 0 <= from <= w.len()
    ensures written(w.push(x), from) == written(w, from) + x.bytes
{
    assert(w.push(x).drop_last() == w);
}
pub proof fn lemma_written_none<W>(w: Seq<SpiWrite<W>>)
    ensures written(w, w.len() as int) == Seq::<W>::empty()
{}
/// `cnt` copies of a pixel
pub open spec fn rep<W, const N: usize>(pixel: [W; N], cnt: int) -> Seq<W> {
    Seq::new((cnt * N) as nat, |k: int| pixel@[k % (N as int)])
}
pub proof fn lemma_rep_add<W, const N: usize>(pixel: [W; N], a: int, b: int)
    requires a >= 0, b >= 0, N > 0
    ensures rep(pixel, a) + rep(pixel, b) == rep(pixel, a + b)
{
    assert(a * N + b * N == (a + b) * N) by(nonlinear_arith);
    assert(a * N >= 0 && b * N >= 0) by(nonlinear_arith) requires a >= 0, b >= 0, N > 0;
    let l = rep(pixel, a) + rep(pixel, b);
    let r = rep(pixel, a + b);
    assert(l.len() == r.len());
    assert forall|k: int| 0 <= k < l.len() implies l[k] == r[k] by {
        if k >= a * N {
            vstd::arithmetic::div_mod::lemma_mod_multiples_vanish(a, k - a * N, N as int);
            assert((k - a * N) + a * N == k);
            assert(N as int * a == a * N) by(nonlinear_arith);
        }
    }
    assert(l =~= r);
}
/// pixel arrays flattened into the word stream, in order
pub open spec fn flat<W, const N: usize>(s: Seq<[W; N]>) -> Seq<W> {
    Seq::new((s.len() * N) as nat, |k: int| s[k / (N as int)]@[k % (N as int)])
}
pub proof fn lemma_flat_add<W, const N: usize>(a: Seq<[W; N]>, b: Seq<[W; N]>)
    requires N > 0
    ensures flat(a) + flat(b) == flat(a + b)
{
    assert(a.len() * N + b.len() * N == (a.len() + b.len()) * N) by(nonlinear_arith);
    let l = flat(a) + flat(b);
    let r = flat(a + b);
    assert(l.len() == r.len());
    assert forall|k: int| 0 <= k < l.len() implies l[k] == r[k] by {
        let n = N as int;
        let al = a.len() as int;
        if k < al * n {
            assert(k / n < al) by(nonlinear_arith) requires 0 <= k < al * n, n > 0;
        } else {
            let k2 = k - al * n;
            vstd::arithmetic::div_mod::lemma_mod_multiples_vanish(al, k2, n);
            assert(k2 + al * n == k);
            assert(n * al == al * n) by(nonlinear_arith);
            assert(k / n == al + k2 / n) by {
                vstd::arithmetic::div_mod::lemma_fundamental_div_mod(k2, n);
                vstd::arithmetic::div_mod::lemma_fundamental_div_mod(k, n);
                assert(k == n * (al + k2 / n) + k2 % n) by(nonlinear_arith) requires k == k2 + al * n, k2 == n * (k2 / n) + k2 % n;
                vstd::arithmetic::div_mod::lemma_fundamental_div_mod_converse(k, n, al + k2 / n, k2 % n);
            }
            assert(0 <= k2 / n < b.len()) by(nonlinear_arith) requires 0 <= k2 < b.len() * n, n > 0;
        }
    }
    assert(l =~= r);
}

// ------------------------------------------------------------------------------ bytes and traces
/// Big-endian (most significant byte first) rendering of a 16-bit quantity, as MIPI DCS requires.
pub open spec fn be16(x: u16) -> Seq<u8> { seq![(x >> 8) as u8, (x & 0xff) as u8] }

/// R11: `u16::to_be_bytes` (std).  Contract re-checked by Kani over all u16.
#[verifier::external_body]
pub fn u16_to_be_bytes(x: u16) -> (r: [u8; 2])
    ensures r@ == be16(x), r@.len() == 2, r[0] == (x >> 8) as u8, r[1] == (x & 0xff) as u8
{ x.to_be_bytes() }

/// What crosses the `Interface` boundary (section 3.1).
pub enum Ev<W> {
    /// `send_command(instruction, params)`
    Cmd(u8, Seq<u8>),
    /// a burst of pixels, each a sequence of bus words
    Px(Seq<Seq<W>>),
    /// a transport operation reported failure; nothing of the failing call follows it
    Fault,
}

/// `b` extends `a` by a burst that ended in a fault.
pub open spec fn faulted<W>(a: Seq<Ev<W>>, b: Seq<Ev<W>>) -> bool {
    a.len() < b.len() && (forall|i: int| 0 <= i < a.len() ==> #[trigger] b[i] == a[i]) && b.last() is Fault
}

/// `b` is `a` followed by exactly one pixel burst.
pub open spec fn px_pushed<W>(a: Seq<Ev<W>>, b: Seq<Ev<W>>) -> bool {
    b.len() == a.len() + 1 && b.drop_last() == a && b.last() is Px
}

/// `b` is `a` followed by more events.
pub open spec fn trace_extends<W>(a: Seq<Ev<W>>, b: Seq<Ev<W>>) -> bool {
    a.len() <= b.len() && (forall|i: int| 0 <= i < a.len() ==> #[trigger] b[i] == a[i])
}
/// What a MIPI-DCS controller has been told so far (section 3.2), as far as the properties need it.
pub struct Ctrl {
    /// sleep state: asleep after reset / 0x10, awake after 0x11
    pub sleeping: bool,
    /// display on (parameterless 0x29) / off (0x28, reset)
    pub on: bool,
    /// last address mode (0x36 with one parameter)
    pub madctl: Option<u8>,
    /// last interface pixel format (0x3A with one parameter)
    pub colmod: Option<u8>,
    /// last of 0x20 / 0x21
    pub inverted: Option<bool>,
    /// number of memory-write commands and pixel bursts
    pub px: nat,
    /// number of software resets
    pub resets: nat,
    /// number of commands
    pub cmds: nat,
}
pub open spec fn ctrl_init() -> Ctrl {
    Ctrl { sleeping: true, on: false, madctl: None, colmod: None, inverted: None, px: 0, resets: 0, cmds: 0 }
}
pub open spec fn ctrl_step<W>(c: Ctrl, e: Ev<W>) -> Ctrl {
    match e {
        Ev::Cmd(op, p) => {
            let c = Ctrl { cmds: c.cmds + 1, ..c };
            if op == 0x01u8 && p.len() == 0 { Ctrl { sleeping: true, on: false, resets: c.resets + 1, ..c } }
            else if op == 0x10u8 && p.len() == 0 { Ctrl { sleeping: true, ..c } }
            else if op == 0x11u8 && p.len() == 0 { Ctrl { sleeping: false, ..c } }
            else if op == 0x28u8 && p.len() == 0 { Ctrl { on: false, ..c } }
            else if op == 0x29u8 && p.len() == 0 { Ctrl { on: true, ..c } }
            else if op == 0x20u8 && p.len() == 0 { Ctrl { inverted: Some(false), ..c } }
            else if op == 0x21u8 && p.len() == 0 { Ctrl { inverted: Some(true), ..c } }
            else if op == 0x36u8 && p.len() == 1 { Ctrl { madctl: Some(p[0]), ..c } }
            else if op == 0x3Au8 && p.len() == 1 { Ctrl { colmod: Some(p[0]), ..c } }
            else if op == 0x2Cu8 || op == 0x3Cu8 { Ctrl { px: c.px + 1, ..c } }
            else { c }
        },
        Ev::Px(_) => Ctrl { px: c.px + 1, ..c },
        Ev::Fault => c,
    }
}
/// the controller state after a trace
pub open spec fn ctrl<W>(t: Seq<Ev<W>>) -> Ctrl
    decreases t.len()
{
    if t.len() == 0 { ctrl_init() } else { ctrl_step(ctrl(t.drop_last()), t.last()) }
}
pub broadcast proof fn lemma_ctrl_push<W>(t: Seq<Ev<W>>, e: Ev<W>)
    ensures #[trigger] ctrl(t.push(e)) == ctrl_step(ctrl(t), e)
{
    assert(t.push(e).drop_last() == t);
    assert(t.push(e).last() == e);
}
pub broadcast proof fn lemma_ctrl_px_pushed<W>(a: Seq<Ev<W>>, b: Seq<Ev<W>>)
    requires #[trigger] px_pushed(a, b)
    ensures ctrl(b) == (Ctrl { px: ctrl(a).px + 1, ..ctrl(a) })
{
    assert(b.len() > 0);
}
pub broadcast proof fn lemma_push_px_pushed<W>(a: Seq<Ev<W>>, b: Seq<Seq<W>>)
    ensures px_pushed(a, #[trigger] a.push(Ev::Px(b)))
{
    assert(a.push(Ev::Px(b)).drop_last() =~= a);
}
pub broadcast group group_trace {
    lemma_ctrl_push, lemma_ctrl_px_pushed, axiom_iter_is_into_iter, axiom_hv_len, axiom_hv_mk, axiom_hv_into_iter, lemma_push_px_pushed,
}

// ------------------------------------------------------------------------- orientation geometry
pub open spec fn spec_degree(r: Rotation) -> int {
    match r { Rotation::Deg0 => 0, Rotation::Deg90 => 90, Rotation::Deg180 => 180, Rotation::Deg270 => 270 }
}
pub open spec fn rot_of_degree(d: int) -> Rotation {
    if d == 0 { Rotation::Deg0 } else if d == 90 { Rotation::Deg90 } else if d == 180 { Rotation::Deg180 } else { Rotation::Deg270 }
}
pub open spec fn rot_vertical(r: Rotation) -> bool { r == Rotation::Deg90 || r == Rotation::Deg270 }
pub open spec fn spec_rot_add(a: Rotation, b: Rotation) -> Rotation {
    rot_of_degree((spec_degree(a) + spec_degree(b)) % 360)
}
pub open spec fn spec_o_rotate(o: Orientation, r: Rotation) -> Orientation {
    Orientation { rotation: spec_rot_add(o.rotation, r), mirrored: o.mirrored }
}
/// Size of the logical image for a panel window of `w` x `h` cells.
pub open spec fn logical_size(o: Orientation, w: int, h: int) -> (int, int) {
    if rot_vertical(o.rotation) { (h, w) } else { (w, h) }
}
/// C01's statement: rotate the logical image clockwise by the rotation, then mirror left-right in the
/// panel frame if mirrored.  (w, h) is the panel window; result is relative to the window's origin.
pub open spec fn panel_cell(o: Orientation, w: int, h: int, x: int, y: int) -> (int, int) {
    let p = match o.rotation {
        Rotation::Deg0 => (x, y),
        Rotation::Deg90 => (w - 1 - y, x),
        Rotation::Deg180 => (w - 1 - x, h - 1 - y),
        Rotation::Deg270 => (y, h - 1 - x),
    };
    if o.mirrored { (w - 1 - p.0, p.1) } else { p }
}
/// Clockwise rotation of a point of a `lw` x `lh` image by `r`.
pub open spec fn rot_cw(r: Rotation, lw: int, lh: int, x: int, y: int) -> (int, int) {
    match r {
        Rotation::Deg0 => (x, y),
        Rotation::Deg90 => (lh - 1 - y, x),
        Rotation::Deg180 => (lw - 1 - x, lh - 1 - y),
        Rotation::Deg270 => (y, lw - 1 - x),
    }
}
/// Flip tables, hand-derived from the geometric meaning and *validated* against it by
/// `lemma_flip_h_geometry` / `lemma_flip_v_geometry` below (they are not read off the code).
pub open spec fn spec_flip_h(o: Orientation) -> Orientation {
    match (o.rotation, o.mirrored) {
        (Rotation::Deg0, m) => Orientation { rotation: Rotation::Deg0, mirrored: !m },
        (Rotation::Deg90, m) => Orientation { rotation: Rotation::Deg270, mirrored: !m },
        (Rotation::Deg180, m) => Orientation { rotation: Rotation::Deg180, mirrored: !m },
        (Rotation::Deg270, m) => Orientation { rotation: Rotation::Deg90, mirrored: !m },
    }
}
pub open spec fn spec_flip_v(o: Orientation) -> Orientation {
    match (o.rotation, o.mirrored) {
        (Rotation::Deg0, m) => Orientation { rotation: Rotation::Deg180, mirrored: !m },
        (Rotation::Deg90, m) => Orientation { rotation: Rotation::Deg90, mirrored: !m },
        (Rotation::Deg180, m) => Orientation { rotation: Rotation::Deg0, mirrored: !m },
        (Rotation::Deg270, m) => Orientation { rotation: Rotation::Deg270, mirrored: !m },
    }
}
pub open spec fn in_img(lw: int, lh: int, x: int, y: int) -> bool { 0 <= x < lw && 0 <= y < lh }

/// C15: extending by a rotation == drawing the clockwise pre-rotated image under the original.
/// (x, y) is a point of the logical image of `spec_o_rotate(o, r)`.
pub proof fn lemma_rotate_geometry(o: Orientation, r: Rotation, w: int, h: int, x: int, y: int)
    requires w >= 1, h >= 1,
        in_img(logical_size(spec_o_rotate(o, r), w, h).0, logical_size(spec_o_rotate(o, r), w, h).1, x, y),
    ensures
        ({ let ls = logical_size(spec_o_rotate(o, r), w, h);
           let q = rot_cw(r, ls.0, ls.1, x, y);
           let lo = logical_size(o, w, h);
           in_img(lo.0, lo.1, q.0, q.1) && panel_cell(spec_o_rotate(o, r), w, h, x, y) == panel_cell(o, w, h, q.0, q.1) }),
{
}
/// C15: flip_horizontal == drawing the left-right pre-mirrored image under the original.
pub proof fn lemma_flip_h_geometry(o: Orientation, w: int, h: int, x: int, y: int)
    requires w >= 1, h >= 1, in_img(logical_size(o, w, h).0, logical_size(o, w, h).1, x, y),
    ensures logical_size(spec_flip_h(o), w, h) == logical_size(o, w, h),
        panel_cell(spec_flip_h(o), w, h, x, y) == panel_cell(o, w, h, logical_size(o, w, h).0 - 1 - x, y),
{
}
/// C15: flip_vertical == drawing the top-bottom pre-mirrored image under the original.
pub proof fn lemma_flip_v_geometry(o: Orientation, w: int, h: int, x: int, y: int)
    requires w >= 1, h >= 1, in_img(logical_size(o, w, h).0, logical_size(o, w, h).1, x, y),
    ensures logical_size(spec_flip_v(o), w, h) == logical_size(o, w, h),
        panel_cell(spec_flip_v(o), w, h, x, y) == panel_cell(o, w, h, x, logical_size(o, w, h).1 - 1 - y),
{
}
/// The geometric behaviour determines the orientation (so the tables above are the only ones that
/// satisfy the statement): two orientations that place the points of a 3 x 2 panel identically are equal.
pub proof fn lemma_orientation_determined(a: Orientation, b: Orientation)
    requires
        logical_size(a, 3, 2) == logical_size(b, 3, 2),
        panel_cell(a, 3, 2, 0, 0) == panel_cell(b, 3, 2, 0, 0),
        panel_cell(a, 3, 2, 1, 0) == panel_cell(b, 3, 2, 1, 0),
    ensures a == b,
{
}
/// C15 consequences: four quarter turns, two equal flips, h-then-v flip == half turn, rotations add.
pub proof fn lemma_rot_add_table(a: Rotation, b: Rotation)
    ensures
        spec_degree(spec_rot_add(a, b)) == (spec_degree(a) + spec_degree(b)) % 360,
        spec_rot_add(a, Rotation::Deg0) == a,
        spec_rot_add(Rotation::Deg0, b) == b,
        spec_rot_add(a, b) == spec_rot_add(b, a),
        spec_rot_add(Rotation::Deg90, Rotation::Deg90) == Rotation::Deg180,
        spec_rot_add(Rotation::Deg90, Rotation::Deg180) == Rotation::Deg270,
        spec_rot_add(Rotation::Deg90, Rotation::Deg270) == Rotation::Deg0,
        spec_rot_add(Rotation::Deg180, Rotation::Deg180) == Rotation::Deg0,
        spec_rot_add(Rotation::Deg180, Rotation::Deg270) == Rotation::Deg90,
        spec_rot_add(Rotation::Deg270, Rotation::Deg270) == Rotation::Deg180,
{
}
pub proof fn lemma_rot_add_assoc(a: Rotation, b: Rotation, c: Rotation)
    ensures spec_rot_add(spec_rot_add(a, b), c) == spec_rot_add(a, spec_rot_add(b, c)),
{
    lemma_rot_add_table(a, b);
    lemma_rot_add_table(b, c);
    lemma_rot_add_table(spec_rot_add(a, b), c);
    lemma_rot_add_table(a, spec_rot_add(b, c));
}
pub proof fn lemma_orientation_group(o: Orientation, r1: Rotation, r2: Rotation)
    ensures
        spec_o_rotate(spec_o_rotate(spec_o_rotate(spec_o_rotate(o, Rotation::Deg90), Rotation::Deg90), Rotation::Deg90), Rotation::Deg90) == o,
        spec_o_rotate(spec_o_rotate(spec_o_rotate(spec_o_rotate(o, Rotation::Deg270), Rotation::Deg270), Rotation::Deg270), Rotation::Deg270) == o,
        spec_o_rotate(spec_o_rotate(o, Rotation::Deg180), Rotation::Deg180) == o,
        spec_o_rotate(o, Rotation::Deg0) == o,
        spec_flip_h(spec_flip_h(o)) == o,
        spec_flip_v(spec_flip_v(o)) == o,
        spec_flip_v(spec_flip_h(o)) == spec_o_rotate(o, Rotation::Deg180),
        spec_flip_h(spec_flip_v(o)) == spec_o_rotate(o, Rotation::Deg180),
        spec_o_rotate(spec_o_rotate(o, r1), r2) == spec_o_rotate(o, spec_rot_add(r1, r2)),
        spec_degree(spec_rot_add(r1, r2)) == (spec_degree(r1) + spec_degree(r2)) % 360,
{
    let d90 = Rotation::Deg90; let d180 = Rotation::Deg180; let d270 = Rotation::Deg270;
    lemma_rot_add_table(o.rotation, d90);
    lemma_rot_add_table(o.rotation, d180);
    lemma_rot_add_table(o.rotation, d270);
    lemma_rot_add_table(o.rotation, Rotation::Deg0);
    lemma_rot_add_table(r1, r2);
    lemma_rot_add_assoc(o.rotation, r1, r2);
    lemma_rot_add_assoc(o.rotation, d90, d90);
    lemma_rot_add_assoc(o.rotation, d180, d90);
    lemma_rot_add_assoc(o.rotation, d270, d90);
    lemma_rot_add_assoc(o.rotation, d270, d270);
    lemma_rot_add_assoc(o.rotation, d180, d270);
    lemma_rot_add_assoc(o.rotation, d90, d270);
    lemma_rot_add_assoc(o.rotation, d180, d180);
    lemma_rot_add_table(d90, d90);
}

// ----------------------------------------------------------------- MADCTL (set address mode) bits
/// (MY, MX, MV) = (row reversal, column reversal, row/column exchange) required by an orientation.
/// Hand-derived table; `lemma_mapping_places_pixels` validates it against the C01 geometry through
/// the controller's decode of the three bits (`ctrl_phys`).
pub open spec fn spec_mapping(o: Orientation) -> (bool, bool, bool) {
    let (my, mx) = match o.rotation {
        Rotation::Deg0 => (false, false),
        Rotation::Deg90 => (false, true),
        Rotation::Deg180 => (true, true),
        Rotation::Deg270 => (true, false),
    };
    (my, mx != o.mirrored, rot_vertical(o.rotation))
}
/// How a MIPI-DCS controller with framebuffer `fw` x `fh` maps address (c, r) to a physical cell under
/// MV/MX/MY: exchange first, then mirror the physical column/row (section 3.2).
pub open spec fn ctrl_phys(my: bool, mx: bool, mv: bool, fw: int, fh: int, c: int, r: int) -> (int, int) {
    let p = if mv { (r, c) } else { (c, r) };
    (if mx { fw - 1 - p.0 } else { p.0 }, if my { fh - 1 - p.1 } else { p.1 })
}
/// Offsets the driver has to add to logical coordinates (property-level characterisation, see C01):
/// a panel window w x h at (ox, oy) in a framebuffer fw x fh.
pub open spec fn spec_window_shift(o: Orientation, fw: int, fh: int, w: int, h: int, ox: int, oy: int) -> (int, int) {
    let m = spec_mapping(o);
    let sx = if m.1 { fw - (w + ox) } else { ox };
    let sy = if m.0 { fh - (h + oy) } else { oy };
    if m.2 { (sy, sx) } else { (sx, sy) }
}
/// C01 core: address (x + a, y + b) sent by the driver is decoded by the controller to the cell the
/// statement names: rotate clockwise, mirror, shift by the offset.
pub proof fn lemma_mapping_places_pixels(o: Orientation, fw: int, fh: int, w: int, h: int, ox: int, oy: int, x: int, y: int)
    requires 1 <= w, 1 <= h, 0 <= ox, 0 <= oy, w + ox <= fw, h + oy <= fh,
        in_img(logical_size(o, w, h).0, logical_size(o, w, h).1, x, y),
    ensures
        ({ let m = spec_mapping(o);
           let s = spec_window_shift(o, fw, fh, w, h, ox, oy);
           let pc = panel_cell(o, w, h, x, y);
           &&& ctrl_phys(m.0, m.1, m.2, fw, fh, x + s.0, y + s.1) == (ox + pc.0, oy + pc.1)
           &&& 0 <= s.0 && 0 <= s.1
           &&& x + s.0 < (if m.2 { fh } else { fw })
           &&& y + s.1 < (if m.2 { fw } else { fh })
           &&& 0 <= pc.0 < w && 0 <= pc.1 < h }),
{
}

pub open spec fn b2u(b: bool, v: u8) -> u8 { if b { v } else { 0u8 } }
pub open spec fn spec_orientation_bits(o: Orientation) -> u8 {
    let m = spec_mapping(o);
    b2u(m.0, 0x80) | b2u(m.1, 0x40) | b2u(m.2, 0x20)
}
pub open spec fn spec_refresh_bits(r: RefreshOrder) -> u8 {
    b2u(r.vertical == VerticalRefreshOrder::BottomToTop, 0x10) | b2u(r.horizontal == HorizontalRefreshOrder::RightToLeft, 0x04)
}
pub open spec fn spec_color_bits(c: ColorOrder) -> u8 { b2u(c == ColorOrder::Bgr, 0x08) }
/// C14: replacing one input rewrites exactly that input's bits.
pub open spec fn spec_with_color(b: u8, c: ColorOrder) -> u8 { (b & !0x08u8) | spec_color_bits(c) }
pub open spec fn spec_with_orientation(b: u8, o: Orientation) -> u8 { (b & !0xE0u8) | spec_orientation_bits(o) }
pub open spec fn spec_with_refresh(b: u8, r: RefreshOrder) -> u8 { (b & !0x14u8) | spec_refresh_bits(r) }
/// The MIPI-DCS address-mode byte for the three inputs; bits 1-0 are zero.
pub open spec fn spec_madctl(c: ColorOrder, o: Orientation, r: RefreshOrder) -> u8 {
    spec_orientation_bits(o) | spec_refresh_bits(r) | spec_color_bits(c)
}
pub open spec fn spec_madctl_of(opts: ModelOptions) -> u8 {
    spec_madctl(opts.color_order, opts.orientation, opts.refresh_order)
}
/// bit-level facts used by the lemmas below (each over all 256 bytes / all bit patterns)
pub proof fn lemma_bits_u8(b: u8, x: u8, y: u8, z: u8)
    requires x & !0xE0u8 == 0, y & !0x14u8 == 0, z & !0x08u8 == 0,
    ensures
        ((((0u8 & !0x08u8) | z) & !0xE0u8 | x) & !0x14u8) | y == x | y | z,
        (x | y | z) & 0x03u8 == 0,
        // setters commute
        (((b & !0x08u8) | z) & !0xE0u8) | x == (((b & !0xE0u8) | x) & !0x08u8) | z,
        (((b & !0x08u8) | z) & !0x14u8) | y == (((b & !0x14u8) | y) & !0x08u8) | z,
        (((b & !0xE0u8) | x) & !0x14u8) | y == (((b & !0x14u8) | y) & !0xE0u8) | x,
        // each setter touches only its own bits
        ((b & !0x08u8) | z) & !0x08u8 == b & !0x08u8,
        ((b & !0xE0u8) | x) & !0xE0u8 == b & !0xE0u8,
        ((b & !0x14u8) | y) & !0x14u8 == b & !0x14u8,
        ((b & !0x08u8) | z) & 0x08u8 == z,
        ((b & !0xE0u8) | x) & 0xE0u8 == x,
        ((b & !0x14u8) | y) & 0x14u8 == y,
{
    assert(((((0u8 & !0x08u8) | z) & !0xE0u8 | x) & !0x14u8) | y == x | y | z) by(bit_vector)
        requires x & !0xE0u8 == 0, y & !0x14u8 == 0, z & !0x08u8 == 0;
    assert((x | y | z) & 0x03u8 == 0) by(bit_vector)
        requires x & !0xE0u8 == 0, y & !0x14u8 == 0, z & !0x08u8 == 0;
    assert((((b & !0x08u8) | z) & !0xE0u8) | x == (((b & !0xE0u8) | x) & !0x08u8) | z) by(bit_vector)
        requires x & !0xE0u8 == 0, z & !0x08u8 == 0;
    assert((((b & !0x08u8) | z) & !0x14u8) | y == (((b & !0x14u8) | y) & !0x08u8) | z) by(bit_vector)
        requires y & !0x14u8 == 0, z & !0x08u8 == 0;
    assert((((b & !0xE0u8) | x) & !0x14u8) | y == (((b & !0x14u8) | y) & !0xE0u8) | x) by(bit_vector)
        requires x & !0xE0u8 == 0, y & !0x14u8 == 0;
    assert(((b & !0x08u8) | z) & !0x08u8 == b & !0x08u8) by(bit_vector) requires z & !0x08u8 == 0;
    assert(((b & !0xE0u8) | x) & !0xE0u8 == b & !0xE0u8) by(bit_vector) requires x & !0xE0u8 == 0;
    assert(((b & !0x14u8) | y) & !0x14u8 == b & !0x14u8) by(bit_vector) requires y & !0x14u8 == 0;
    assert(((b & !0x08u8) | z) & 0x08u8 == z) by(bit_vector) requires z & !0x08u8 == 0;
    assert(((b & !0xE0u8) | x) & 0xE0u8 == x) by(bit_vector) requires x & !0xE0u8 == 0;
    assert(((b & !0x14u8) | y) & 0x14u8 == y) by(bit_vector) requires y & !0x14u8 == 0;
}
pub proof fn lemma_field_bits(c: ColorOrder, o: Orientation, r: RefreshOrder)
    ensures spec_orientation_bits(o) & !0xE0u8 == 0, spec_refresh_bits(r) & !0x14u8 == 0, spec_color_bits(c) & !0x08u8 == 0,
{
    assert(0x80u8 & !0xE0u8 == 0 && 0x40u8 & !0xE0u8 == 0 && 0x20u8 & !0xE0u8 == 0 && 0u8 & !0xE0u8 == 0) by(bit_vector);
    assert(forall|a: u8, b: u8, c: u8| a & !0xE0u8 == 0 && b & !0xE0u8 == 0 && c & !0xE0u8 == 0 ==> #[trigger] ((a | b | c) & !0xE0u8) == 0) by(bit_vector);
    assert(0x10u8 & !0x14u8 == 0 && 0x04u8 & !0x14u8 == 0 && 0u8 & !0x14u8 == 0) by(bit_vector);
    assert(forall|a: u8, b: u8| a & !0x14u8 == 0 && b & !0x14u8 == 0 ==> #[trigger] ((a | b) & !0x14u8) == 0) by(bit_vector);
    assert(0x08u8 & !0x08u8 == 0 && 0u8 & !0x08u8 == 0) by(bit_vector);
}
/// C14: applying the three setters to 0 in the order `new`/`from` use gives the MIPI byte, any order of
/// application on any start byte gives the same result, and each setter leaves the other bits alone.
pub proof fn lemma_madctl_setters(b: u8, c: ColorOrder, o: Orientation, r: RefreshOrder)
    ensures
        spec_with_refresh(spec_with_orientation(spec_with_color(0u8, c), o), r) == spec_madctl(c, o, r),
        spec_madctl(c, o, r) & 0x03u8 == 0,
        spec_with_orientation(spec_with_color(b, c), o) == spec_with_color(spec_with_orientation(b, o), c),
        spec_with_refresh(spec_with_color(b, c), r) == spec_with_color(spec_with_refresh(b, r), c),
        spec_with_refresh(spec_with_orientation(b, o), r) == spec_with_orientation(spec_with_refresh(b, r), o),
        spec_with_color(b, c) & !0x08u8 == b & !0x08u8,
        spec_with_orientation(b, o) & !0xE0u8 == b & !0xE0u8,
        spec_with_refresh(b, r) & !0x14u8 == b & !0x14u8,
        spec_with_color(b, c) & 0x08u8 == spec_color_bits(c),
        spec_with_orientation(b, o) & 0xE0u8 == spec_orientation_bits(o),
        spec_with_refresh(b, r) & 0x14u8 == spec_refresh_bits(r),
{
    lemma_field_bits(c, o, r);
    lemma_bits_u8(b, spec_orientation_bits(o), spec_refresh_bits(r), spec_color_bits(c));
}

/// C10/C14: re-orienting the byte of (c, o, r) gives the byte of (c, o2, r).
pub proof fn lemma_with_orientation_replaces(c: ColorOrder, o: Orientation, o2: Orientation, r: RefreshOrder)
    ensures spec_with_orientation(spec_madctl(c, o, r), o2) == spec_madctl(c, o2, r),
{
    lemma_field_bits(c, o, r);
    lemma_field_bits(c, o2, r);
    let x = spec_orientation_bits(o); let x2 = spec_orientation_bits(o2); let y = spec_refresh_bits(r); let z = spec_color_bits(c);
    assert(((x | y | z) & !0xE0u8) | x2 == x2 | y | z) by(bit_vector)
        requires x & !0xE0u8 == 0, x2 & !0xE0u8 == 0, y & !0x14u8 == 0, z & !0x08u8 == 0;
}

} // mod vf
