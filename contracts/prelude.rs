pub mod vf {
use vstd::prelude::*;
use vstd::std_specs::iter::*;
use embedded_hal::digital::{OutputPin, ErrorType};
use embedded_hal::delay::DelayNs;
use embedded_graphics_core::pixelcolor::{PixelColor, RgbColor, Rgb565, Rgb666};

#[verifier::external_trait_specification]
pub trait ExHalError: core::fmt::Debug {
    type ExternalTraitSpecificationFor: embedded_hal::digital::Error;
}
#[verifier::external_trait_specification]
pub trait ExErrorType {
    type ExternalTraitSpecificationFor: ErrorType;
    type Error: embedded_hal::digital::Error;
}
#[verifier::external_trait_specification]
pub trait ExSpiError: core::fmt::Debug {
    type ExternalTraitSpecificationFor: embedded_hal::spi::Error;
}
#[verifier::external_trait_specification]
pub trait ExSpiErrorType {
    type ExternalTraitSpecificationFor: embedded_hal::spi::ErrorType;
    type Error: embedded_hal::spi::Error;
}
pub struct SpiWrite { pub bytes: Seq<u8>, pub ok: bool }
#[verifier::external_trait_specification]
#[verifier::external_trait_extension(SpiDeviceSpec via SpiDeviceSpecImpl)]
pub trait ExSpiDevice<Word: Copy + 'static>: embedded_hal::spi::ErrorType {
    type ExternalTraitSpecificationFor: embedded_hal::spi::SpiDevice<Word>;
    spec fn writes(&self) -> Seq<SpiWrite>;
    fn write(&mut self, buf: &[Word]) -> (r: Result<(), Self::Error>);
}
pub struct PinOp { pub high: bool, pub ok: bool }
#[verifier::external_trait_specification]
#[verifier::external_trait_extension(OutputPinSpec via OutputPinSpecImpl)]
pub trait ExOutputPin: ErrorType {
    type ExternalTraitSpecificationFor: OutputPin;
    spec fn ops(&self) -> Seq<PinOp>;
    fn set_low(&mut self) -> (r: Result<(), Self::Error>)
        ensures final(self).ops() == old(self).ops().push(PinOp { high: false, ok: r.is_ok() });
    fn set_high(&mut self) -> (r: Result<(), Self::Error>)
        ensures final(self).ops() == old(self).ops().push(PinOp { high: true, ok: r.is_ok() });
}
#[verifier::external_trait_specification]
#[verifier::external_trait_extension(DelaySpec via DelaySpecImpl)]
pub trait ExDelayNs {
    type ExternalTraitSpecificationFor: DelayNs;
    spec fn elapsed(&self) -> nat;
    fn delay_ns(&mut self, ns: u32)
        ensures final(self).elapsed() == old(self).elapsed() + ns;
    fn delay_us(&mut self, us: u32)
        ensures final(self).elapsed() == old(self).elapsed() + us * 1000;
    fn delay_ms(&mut self, ms: u32)
        ensures final(self).elapsed() == old(self).elapsed() + ms * 1000000;
}
#[verifier::external_trait_specification]
pub trait ExPixelColor: Copy + PartialEq {
    type ExternalTraitSpecificationFor: PixelColor;
}
#[verifier::external_trait_specification]
pub trait ExRgbColor: PixelColor {
    type ExternalTraitSpecificationFor: RgbColor;
}
#[verifier::external_type_specification]
#[verifier::external_body]
pub struct ExRgb565(Rgb565);
#[verifier::external_type_specification]
#[verifier::external_body]
pub struct ExRgb666(Rgb666);

pub assume_specification [i32::rem_euclid] (a: i32, b: i32) -> (r: i32)
    requires b > 0,
    ensures r as int == (a as int) % (b as int);


pub open spec fn be16(x: u16) -> Seq<u8> { seq![(x >> 8) as u8, (x & 0xff) as u8] }
#[verifier::external_body]
pub fn u16_to_be_bytes(x: u16) -> (r: [u8; 2])
    ensures r@ == be16(x)
{ x.to_be_bytes() }
#[verifier::external_type_specification]
#[verifier::external_body]
#[verifier::reject_recursive_types(T)]
pub struct ExOnce<T>(core::iter::Once<T>);
pub assume_specification<T> [core::iter::once] (v: T) -> (r: core::iter::Once<T>)
    ensures r.obeys_prophetic_iter_laws(), r.remaining() == seq![v];

#[verifier::external_type_specification]
#[verifier::external_body]
pub struct ExNoResetPin(crate::builder::NoResetPin);
}
