"""Verdict protocol, evidence and replay (DESIGN.md section 4)."""
import hashlib
import json
import os
import re
import shutil
import sys
import time

sys.path.insert(0, os.path.dirname(__file__))
import extract  # noqa: E402
import kanirun  # noqa: E402
import verusrun  # noqa: E402
from props import PROPS, COMMON_TRUSTED  # noqa: E402

VERIF = os.path.dirname(os.path.dirname(os.path.abspath(__file__)))
REPO = os.environ.get('VERIF_REPO', '/repo')
EVID = os.environ.get('VERIF_EVIDENCE_DIR') or os.path.join(VERIF, 'evidence')
REPLAY = os.environ.get('VERIF_REPLAY_DIR') or os.path.join(VERIF, 'build', 'replay')
CACHE = os.path.join(VERIF, 'build', 'cache')


def log(*a):
    print(*a, flush=True)


# ------------------------------------------------------------------------------------ known findings
def load_known():
    """known_findings.txt:  'known: property=<id> match=<regex> :: <what fails>'  and
    'fixed: property=<id> <commit> <what failed>' (fixed entries suppress nothing)."""
    res = []
    p = os.path.join(VERIF, 'known_findings.txt')
    if not os.path.exists(p):
        return res
    for ln in open(p):
        ln = ln.strip()
        m = re.match(r'known:\s+property=(\S+)\s+match=(\S+)\s*::\s*(.*)$', ln)
        if m:
            res.append({'property': m.group(1), 'match': m.group(2), 'what': m.group(3)})
    return res


# -------------------------------------------------------------------------------------- verus part
def tree_hash(cfgname):
    h = hashlib.sha256()
    roots = [os.path.join(REPO, 'src'), os.path.join(VERIF, 'contracts', 'verus'), os.path.join(VERIF, 'tools')]
    files = [os.path.join(VERIF, 'contracts', 'prelude.rs'), os.path.join(REPO, 'Cargo.lock'), os.path.join(REPO, 'Cargo.toml')]
    for r in roots:
        for dp, dn, fn in os.walk(r):
            dn.sort()
            if '__pycache__' in dp:
                continue
            for f in sorted(fn):
                if f.endswith('.pyc'):
                    continue
                files.append(os.path.join(dp, f))
    for f in files:
        h.update(f.encode())
        try:
            h.update(open(f, 'rb').read())
        except OSError:
            h.update(b'<missing>')
    h.update(cfgname.encode())
    return h.hexdigest()[:32]


def run_verus_cfg(cfgname, tier, seed, rlimit=None, use_cache=True, canary=False):
    """Returns summary dict (see verusrun.summarize) + 'cache_hit'."""
    key = tree_hash(cfgname) + ('-r%s' % rlimit if rlimit else '') + ('-s%d' % seed if rlimit else '') + ('-canary' if canary else '')
    cpath = os.path.join(CACHE, key + '.json')
    if use_cache and os.environ.get('VERIF_NOCACHE') != '1' and os.path.exists(cpath):
        try:
            s = json.load(open(cpath))
            s['cache_hit'] = True
            return s
        except Exception:
            pass
    verusrun.check_dep_versions(REPO)
    summ, lines = verusrun.build_and_run(REPO, cfgname, rlimit=rlimit, seed=seed if rlimit else None, canary=canary)
    summ['cache_hit'] = False
    summ['line_count'] = len(lines)
    # assumption scan over the generated file
    text = '\n'.join(l.text for l in lines)
    scan = {}
    for pat in ('assume(', 'admit(', 'external_body', 'assume_specification', 'external_type_specification',
                'external_trait_specification', 'verifier::external]', 'external_derive', 'uninterp spec'):
        scan[pat] = text.count(pat)
    summ['assumption_scan'] = scan
    os.makedirs(CACHE, exist_ok=True)
    try:
        json.dump(summ, open(cpath, 'w'))
    except Exception:
        pass
    return summ


def select(functions, patterns):
    out = []
    for name in sorted(functions):
        if any(re.search(p, name) for p in patterns):
            out.append(name)
    return out


def key_to_vname(key):
    """contract key -> the name Verus reports (trait/impl markers dropped)."""
    k = re.sub(r'\[[^\]]*\]', '', key)
    k = k.replace('{trait}', '')
    return k


# ----------------------------------------------------------------------------------------- main flow
def write_evidence(pid, ev):
    os.makedirs(EVID, exist_ok=True)
    p = os.path.join(EVID, pid + '.json')
    tmp = p + '.tmp'
    json.dump(ev, open(tmp, 'w'), indent=1, sort_keys=False)
    os.replace(tmp, p)


def undecided(pid, tier, seed, t0, why, detail=None):
    log('UNDECIDED property=%s: %s' % (pid, why))
    if detail:
        log(detail[-3000:])
    ev = {'property_id': pid, 'tier': tier, 'seed': seed, 'level': 'other',
          'coverage': {'explanation': 'UNDECIDED (no verdict): ' + why, 'evaluations': 0, 'distinct_nontrivial': 0},
          'assumptions': [], 'wall_s': round(time.time() - t0, 2), 'violations': 0}
    write_evidence(pid, ev)
    return 2


def check(pid, tier, seed, update_expected=False):
    t0 = time.time()
    if pid not in PROPS:
        log('unknown property', pid)
        return 2
    P = PROPS[pid]
    known = [k for k in load_known() if k['property'] == pid]
    failing = []      # list of dict(kind, id, detail, replay?)
    obligations = []  # list of dict(id, backend, ok, time_s, detail)
    bounded = []
    notes = []
    verus_info = {}
    exp_path = os.path.join(VERIF, 'expected', pid + '.txt')
    expected = set()
    if os.path.exists(exp_path):
        expected = set(x.strip() for x in open(exp_path) if x.strip() and not x.startswith('#'))

    # ---- Verus
    V = P.get('verus')
    vfail_keys = []
    deferred = []   # reasons why the Verus part gave no verdict; the Kani part still runs and may find a violation
    if V:
        for cfgname in V['cfgs'] if tier == 'thorough' else V['cfgs'][:V.get('quick_cfgs', len(V['cfgs']))]:
            try:
                summ = run_verus_cfg(cfgname, tier, seed, use_cache=(tier == 'quick'))
            except extract.Undecided as e:
                deferred.append('extraction/verus [%s]: %s' % (cfgname, e))
                continue
            fe = [e for e in summ['errors'] if e['kind'] == 'frontend']
            if summ.get('verified') is None or fe:
                deferred.append('verus front end rejected the extracted crate [%s]: %s'
                                % (cfgname, '; '.join(e['msg'][:200] for e in fe[:3]) or 'no result'))
                continue
            if summ.get('degraded'):
                notes.append('functions treated as external_body in this run because Verus\' front end rejected a construct in them: %s'
                             % ', '.join(k for k, _ in summ['degraded']))
            fns = summ['functions']
            mine = select(fns, V['fns'])
            # retry on resource limits
            rl = [e for e in summ['errors'] if e['kind'] == 'rlimit' and e.get('fn') and key_to_vname(e['fn']) in mine]
            if rl:
                try:
                    summ2 = run_verus_cfg(cfgname, tier, seed + 1, rlimit=40, use_cache=(tier == 'quick'))
                except extract.Undecided as e:
                    return undecided(pid, tier, seed, t0, 'verus retry: %s' % e)
                rl2 = [e for e in summ2['errors'] if e['kind'] == 'rlimit' and e.get('fn') and key_to_vname(e['fn']) in mine]
                if rl2:
                    deferred.append('resource limit after retry in ' + ', '.join(sorted(set(e['fn'] for e in rl2))))
                    continue
                summ = summ2
                fns = summ['functions']
                mine = select(fns, V['fns'])
            errs_by_fn = {}
            for e in summ['errors']:
                if e.get('fn'):
                    errs_by_fn.setdefault(key_to_vname(e['fn']), []).append(e)
            for name in mine:
                oid = 'verus[%s]:%s' % (cfgname, name)
                ok = fns[name]['success'] and name not in errs_by_fn
                is_canary = name.split('::')[-1].startswith('canary_')
                if is_canary:
                    # vacuity guard: a canary asserts false under a contract's precondition and MUST fail
                    if ok:
                        deferred.append('vacuity guard: %s verified, its precondition is contradictory' % name)
                    obligations.append({'id': oid, 'backend': 'verus/z3 (canary: must fail)', 'ok': True, 'time_s': fns[name]['time_us'] / 1e6})
                    continue
                obligations.append({'id': oid, 'backend': 'verus/z3', 'ok': ok, 'time_s': fns[name]['time_us'] / 1e6,
                                    'rlimit': fns[name]['rlimit']})
                if not ok:
                    es = errs_by_fn.get(name, [])
                    failing.append({'kind': 'verus', 'id': oid, 'fn': name, 'cfg': cfgname,
                                    'detail': [{'msg': e['msg'], 'origin': e['origin'], 'src': e['src'],
                                                'notes': [n for n in e['notes'] if n.get('text') or n.get('label')][:4]} for e in es][:8]})
            # vacuity guard: the same extraction with `flag_f ==> false` added to every exec function's postconditions must
            # FAIL for every function of this property (a function that still verifies has a contradictory precondition or
            # an inconsistent assumption in scope)
            try:
                csumm = run_verus_cfg(cfgname, tier, seed, use_cache=(tier == 'quick'), canary=True)
                cans = set(key_to_vname(k) for k in csumm['report'].get('canaries', []))
                vac = [n for n in mine if n in cans and csumm['functions'].get(n, {}).get('success')]
                if vac:
                    deferred.append('vacuity guard: %s still verify with `false` added to their postconditions' % ', '.join(vac))
                ncan = len([n for n in mine if n in cans])
            except extract.Undecided as e:
                deferred.append('vacuity pass: %s' % e)
                ncan = 0
            verus_info[cfgname] = {'vacuity_canaries_checked': ncan, 'cmd': summ['cmd'], 'verified_total': summ['verified'], 'errors_total': summ['nerrors'],
                                   'smt_ms': summ['smt_ms'], 'wall_s': round(summ['wall'], 2), 'cache_hit': summ['cache_hit'],
                                   'rewrite_counts': summ['counts'], 'assumption_scan': summ.get('assumption_scan'),
                                   'externals': summ['report'].get('externals')}

    # ---- Kani
    K = P.get('kani')
    kres_all = {}
    if K:
        groups = K.get('groups', [{}])
        for g in groups:
            hs = list(g.get('quick', [])) + (list(g.get('thorough', [])) if tier == 'thorough' else [])
            if not hs:
                continue
            try:
                d, dst = kanirun.make_scratch(REPO, swap_ptr16=g.get('ptr16', False), files=K.get('files'))
            except extract.Undecided as e:
                return undecided(pid, tier, seed, t0, 'kani overlay: %s' % e)
            try:
                r = kanirun.run_kani(dst, hs, no_default=g.get('no_default', False), jobs=g.get('jobs', 8),
                                     extra=g.get('extra', ()), timeout=g.get('timeout', 1800))
                if r['compile_error'] or not r['harness']:
                    # no verdict from this group (the overlaid crate does not build, or the whole invocation timed out): the
                    # property is undecided unless another obligation of this run fails with a verdict
                    deferred.append('kani group without any verdict (%s): %s' % ('build error' if r['compile_error'] else 'time-out or tool failure', ', '.join(hs[:4])))
                    notes.append('kani output tail: ' + r['raw_tail'][-600:])
                    continue
                for h in hs:
                    hr = r['harness'].get(h)
                    oid = 'kani%s:%s' % ('[ptr16]' if g.get('ptr16') else ('[nobatch]' if g.get('no_default') else ''), h)
                    if hr is None or hr['status'] is None:
                        # no verdict for this harness (time-out, tool failure): the property is undecided unless another
                        # obligation of this run fails with a verdict
                        deferred.append('kani harness %s produced no verdict (time-out or tool failure)' % h)
                        continue
                    isb = h in g.get('bounded', {})
                    ok = hr['status'] == 'SUCCESSFUL'
                    if not ok and hr['failed_checks']:
                        # assertion messages carry the id of the property they decide ("C17: ..."); a harness shared between
                        # properties only fails for this property on its own assertions and on untagged checks (panics, overflow)
                        mine_fc = [f for f in hr['failed_checks'] if not re.search(r'\bC\d\d:', f['desc']) or any(re.search(r'\b%s:' % tg, f['desc']) for tg in P.get('tags', [pid]))]
                        if not mine_fc:
                            ok = True
                            notes.append('harness %s failed only on assertions of other properties: %s' % (h, '; '.join(f['desc'][:60] for f in hr['failed_checks'][:3])))
                        else:
                            hr['failed_checks'] = mine_fc
                    if ok and hr['cover_total'] and hr['cover_satisfied'] < hr['cover_total']:
                        deferred.append('vacuity guard: cover in %s unsatisfied (%d/%d)' % (h, hr['cover_satisfied'], hr['cover_total']))
                        continue
                    rec = {'id': oid, 'backend': 'kani/cbmc', 'ok': ok, 'time_s': hr['time_s'], 'checks': hr['checks'],
                           'covers': '%d/%d' % (hr['cover_satisfied'], hr['cover_total'])}
                    if isb:
                        rec['bound'] = g['bounded'][h]
                        bounded.append(rec)
                    else:
                        obligations.append(rec)
                    if not ok:
                        only_unwind = hr['failed_checks'] and all('unwinding' in f['desc'] for f in hr['failed_checks'])
                        if only_unwind and h not in K.get('nonterm', []):
                            deferred.append('unwinding bound too small in %s' % h)
                            continue
                        # (for a termination harness on a concrete input, running into the unwinding bound IS the violation)
                        fl = {'kind': 'kani', 'id': oid, 'harness': h, 'group': g, 'detail': hr['failed_checks'][:6]}
                        # one replayed input per run is enough to show the violation; further failing harnesses are listed
                        if not any(x.get('playback') and x['playback'].get('native_failed') for x in failing if x['kind'] == 'kani'):
                            fl['playback'] = kanirun.playback(dst, h, no_default=g.get('no_default', False), timeout=(90 if h in K.get('nonterm', []) else 900), synth=(h in K.get('nonterm', [])))
                        failing.append(fl)
                kres_all[id(g)] = r['cmd']
            finally:
                kanirun.cleanup(d)

    if update_expected:
        os.makedirs(os.path.dirname(exp_path), exist_ok=True)
        with open(exp_path, 'w') as f:
            f.write('# obligations discharged on the unchanged tree (generated by ./check %s --update-expected)\n' % pid)
            for o in obligations + bounded:
                if tier == 'thorough' or True:
                    f.write(o['id'] + '\n')
        log('expected list written: %d' % (len(obligations) + len(bounded)))
        expected = set(o['id'] for o in obligations + bounded)
    # expected-list guard (silently dropped obligations)
    got_ids = set(o['id'] for o in obligations)
    missing = sorted(x for x in expected if x not in got_ids and x not in set(b['id'] for b in bounded)
                     and not (tier == 'quick' and x_is_thorough_only(P, x)))
    if missing:
        deferred.append('obligations of the committed expected list are missing from this run '
                        '(renamed/removed function or harness, or function outside the verifier\'s reach): ' + ', '.join(missing[:6]))
    if not obligations:
        deferred.append('vacuity guard: zero obligations generated')

    # ---- pair failing Verus obligations with counterexample finders
    violations = []
    for fl in failing:
        if fl['kind'] == 'verus':
            pairs = []
            for pat, hs in P.get('pairs', {}).items():
                if re.search(pat, fl['fn']):
                    pairs += hs
            fl['pair_results'] = []
            found = None
            have_kani_input = any(x.get('playback') and x['playback'].get('native_failed') for x in failing if x['kind'] == 'kani')
            if have_kani_input:
                fl['pair_results'].append({'note': 'a Kani obligation of this property already failed with a replayed input in this run'})
            if pairs and not have_kani_input:
                try:
                    d, dst = kanirun.make_scratch(REPO, files=(P.get('kani') or {}).get('files'))
                    try:
                        # a pair harness runs in the feature configuration of the group that registers it
                        def nd_of(h):
                            for g in (P.get('kani') or {}).get('groups', []):
                                if h in g.get('quick', []) or h in g.get('thorough', []):
                                    return bool(g.get('no_default'))
                            return False
                        for nd in (False, True):
                            hs_ = [h for h in pairs if nd_of(h) == nd]
                            # a harness of the other feature configuration cannot witness a failure of this one
                            if not hs_ or (nd and fl.get('cfg') == 'default') or (not nd and fl.get('cfg') == 'nobatch'):
                                continue
                            r = kanirun.run_kani(dst, hs_, jobs=8, no_default=nd, timeout=900)
                            for h in hs_:
                                hr = r['harness'].get(h)
                                st = hr['status'] if hr else None
                                fl['pair_results'].append({'harness': h, 'status': st, 'no_default': nd})
                                if st == 'FAILED' and found is None:
                                    pb = kanirun.playback(dst, h, no_default=nd)
                                    if pb and pb.get('native_failed'):
                                        found = {'harness': h, 'playback': pb, 'failed_checks': hr['failed_checks'][:4]}
                    finally:
                        kanirun.cleanup(d)
                except extract.Undecided:
                    pass
            fl['found'] = found
            complete = any(re.search(p, fl['fn']) for p in P.get('complete_pairs', []))
            if found is None and pairs and not have_kani_input and complete and fl['pair_results'] and all(x.get('status') == 'SUCCESSFUL' for x in fl['pair_results']):
                return undecided(pid, tier, seed, t0, 'verus obligation %s fails but its complete Kani pair passes over the same domain '
                                 '(proof brittleness, not a violation)' % fl['id'], json.dumps(fl['detail'], indent=1, default=str))
            violations.append(fl)
        else:
            violations.append(fl)

    # known findings
    real = []
    for v in violations:
        vid = v['id']
        k = [x for x in known if re.search(x['match'], vid)]
        if k:
            log('KNOWN-FINDING: property=%s %s [%s]' % (pid, k[0]['what'], vid))
        else:
            real.append(v)

    if deferred and not [v for v in real if v['kind'] == 'kani' or v.get('found')]:
        return undecided(pid, tier, seed, t0, ' | '.join(deferred), '\n'.join(notes))
    discharged = sum(1 for o in obligations if o['ok'])
    wall = round(time.time() - t0, 2)
    samples = []
    for o in obligations[:6]:
        samples.append({'obligation': o['id'], 'backend': o['backend'], 'discharged': o['ok'], 'time_s': o['time_s']})
    ev = {
        'property_id': pid, 'tier': tier, 'seed': seed, 'level': 'proof',
        'coverage': {
            'obligations': len(obligations), 'discharged': discharged,
            'checker_cmd': '; '.join([v['cmd'] for v in verus_info.values()] + list(kres_all.values()))[:4000] or './check ' + pid,
            'trusted_base': COMMON_TRUSTED + P.get('trusted', []),
            'samples': samples,
            'obligation_list': [{'id': o['id'], 'backend': o['backend'], 'ok': o['ok'], 'time_s': o['time_s'],
                                 **({'checks': o['checks'], 'covers': o['covers']} if 'checks' in o else {})} for o in obligations],
            'functions_under_contract': P.get('functions', []),
            'bounded_standins_not_counted_as_proved': bounded,
            'verus_runs': verus_info,
            'known_findings_reported': len(violations) - len(real),
            'notes': notes + deferred,
            'solver_time_s': round(sum((o['time_s'] or 0) for o in obligations), 3),
            'exhaustive': False,
        },
        'assumptions': P.get('assumptions', []),
        'wall_s': wall,
        'violations': len(real),
    }
    write_evidence(pid, ev)
    if not real:
        log('OK property=%s tier=%s obligations=%d discharged=%d bounded=%d wall=%.1fs' % (pid, tier, len(obligations), discharged, len(bounded), wall))
        return 0
    # ---- write replay
    rdir = os.path.join(REPLAY, pid)
    shutil.rmtree(rdir, ignore_errors=True)
    os.makedirs(rdir)
    have_input = False
    rec = {'property': pid, 'violations': []}
    for i, v in enumerate(real):
        item = {'obligation': v['id'], 'kind': v['kind'], 'verifier_output': v.get('detail')}
        pb = None
        if v['kind'] == 'kani':
            pb = v.get('playback')
            item['harness'] = v['harness']
            item['no_default'] = v['group'].get('no_default', False)
            item['ptr16'] = v['group'].get('ptr16', False)
        elif v.get('found'):
            pb = v['found']['playback']
            item['harness'] = v['found']['harness']
            item['pair_failed_checks'] = v['found']['failed_checks']
        if v['kind'] == 'verus':
            item['pair_results'] = v.get('pair_results')
        if pb and pb.get('test_name'):
            item['playback_test'] = pb['test_name']
            item['playback_src'] = pb['test_src']
            item['native_failed'] = pb.get('native_failed')
            item['native_log_tail'] = (pb.get('native_log') or '')[-2500:]
            if pb.get('native_failed'):
                have_input = True
        rec['violations'].append(item)
    json.dump(rec, open(os.path.join(rdir, 'replay.json'), 'w'), indent=1, default=str)
    for v in real:
        log('  failed obligation: %s' % v['id'])
        for dline in (v.get('detail') or [])[:3]:
            log('     %s' % (json.dumps(dline, default=str)[:300]))
    log('VIOLATION property=%s replay=%s%s' % (pid, rdir, '' if have_input else ' no-failing-input-found'))
    return 1


def x_is_thorough_only(P, oid):
    K = P.get('kani') or {}
    for g in K.get('groups', []):
        for h in g.get('thorough', []):
            if oid.endswith(':' + h):
                return True
    V = P.get('verus') or {}
    q = V.get('quick_cfgs')
    if q is not None:
        for c in V['cfgs'][q:]:
            if oid.startswith('verus[%s]:' % c):
                return True
    return False


def replay(path):
    rec = json.load(open(path if os.path.isfile(path) else os.path.join(path, 'replay.json')))
    rc = 0
    for item in rec['violations']:
        print('== obligation', item['obligation'])
        if not item.get('playback_src'):
            print('no failing input was found for this obligation; verifier output:')
            print(json.dumps(item.get('verifier_output'), indent=1, default=str))
            rc = 1
            continue
        d, dst = kanirun.make_scratch(REPO, swap_ptr16=item.get('ptr16', False))
        try:
            # append the recorded playback test to a harness file of the scratch copy and run it natively
            hdir = os.path.join(dst, 'vk_harness')
            target = None
            for f in sorted(os.listdir(hdir)):
                if re.search(r'fn %s\b' % re.escape(item['harness']), open(os.path.join(hdir, f)).read()):
                    target = os.path.join(hdir, f)
            if target is None:
                print('harness not found any more:', item['harness'])
                rc = 2
                continue
            with open(target, 'a') as f:
                f.write('\n' + item['playback_src'] + '\n')
            import subprocess
            env = dict(os.environ, CARGO_NET_OFFLINE='true', CARGO_TARGET_DIR=kanirun.TARGET)
            cmd = ['cargo', 'kani', 'playback', '-p', 'mipidsi', '-Z', 'concrete-playback']
            if item.get('no_default'):
                cmd += ['--no-default-features']
            cmd += ['--', item['playback_test']]
            r = subprocess.run(cmd, cwd=dst, env=env, capture_output=True, text=True)
            print(r.stdout[-3000:])
            # the verdict is that of the recorded test itself (cargo's exit status also reflects doc-test targets)
            verdict = re.search(r'test \S*%s \.\.\. (ok|FAILED)' % re.escape(item['playback_test']), r.stdout)
            failed = bool(verdict and verdict.group(1) == 'FAILED') or (verdict is None and r.returncode != 0 and 'panicked at' in (r.stdout + r.stderr))
            if 'det vals vec' in (r.stdout + r.stderr) or 'concrete_playback' in (r.stdout + r.stderr) and 'any_raw_internal' in (r.stdout + r.stderr) and 'Expected' in (r.stdout + r.stderr):
                print('replay: the recorded input no longer fits the harness (the harness draws its symbolic inputs differently now); not a verdict')
                rc = max(rc, 2)
            elif verdict is None and not failed and r.returncode != 0:
                print('replay: could not run the recorded test (build problem?)')
                print(r.stderr[-1500:])
                rc = max(rc, 2)
            elif failed:
                print('replay: the recorded input still fails on the current tree')
                rc = 1
            else:
                print('replay: the recorded input passes on the current tree')
        finally:
            kanirun.cleanup(d)
    return rc


def main(argv):
    if argv and argv[0] == '--replay':
        return replay(argv[1])
    if not argv:
        print(__doc__)
        return 2
    pid = argv[0]
    tier = os.environ.get('VERIF_TIER', 'quick')
    upd = False
    i = 1
    while i < len(argv):
        if argv[i] == '--tier':
            tier = argv[i + 1]
            i += 2
        elif argv[i] == '--update-expected':
            upd = True
            i += 1
        else:
            i += 1
    if tier not in ('quick', 'thorough'):
        tier = 'quick'
    try:
        seed = int(os.environ.get('VERIF_SEED', '0'))
    except ValueError:
        seed = 0
    try:
        return check(pid, tier, seed, update_expected=upd)
    except extract.Undecided as e:
        return undecided(pid, tier, seed, time.time(), str(e))
    except Exception as e:   # a crash of the machinery is never an alarm
        import traceback
        return undecided(pid, tier, seed, time.time(), 'internal error: %r' % e, traceback.format_exc())
