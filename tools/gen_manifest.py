#!/usr/bin/env python3
"""Regenerates /verif/MANIFEST.json from tools/props.py (claimed checks) and properties.jsonl."""
import json
import os
import sys
sys.path.insert(0, os.path.dirname(__file__))
from props import PROPS, NOT_APPLICABLE

VERIF = os.path.dirname(os.path.dirname(os.path.abspath(__file__)))
ids = [json.loads(l)['id'] for l in open(os.path.join(VERIF, 'properties.jsonl'))]
checks = []
for pid in ids:
    if pid not in PROPS or not PROPS[pid].get('claimed', True):
        continue
    P = PROPS[pid]
    checks.append({
        'property_id': pid,
        'quick_cmd': './check %s --tier quick' % pid,
        'thorough_cmd': './check %s --tier thorough' % pid,
        'evidence_file': 'evidence/%s.json' % pid,
        'replay_cmd_template': './check --replay {path}',
        'engine': 'contracts',
        'level_claimed': {'category': 'proof', 'text': P['level_text'], 'design_ref': 'DESIGN.md section 5/' + pid},
        'level_note': P['level_note'],
        'technique': P['technique'],
    })
na = []
for pid in ids:
    if pid in PROPS and PROPS[pid].get('claimed', True):
        continue
    na.append({'property_id': pid, 'reason': NOT_APPLICABLE.get(pid, 'check not built yet (work in progress; see DESIGN.md)')})
m = {
    'version': 1,
    'setup_cmd': 'python3 tools/setup.py',
    'hooks': {
        'guard': 'none in /repo: cfg(kani) (set only by cargo-kani) and the Verus extraction are applied to a scratch copy / generated file outside /repo',
        'enable': 'each check copies /repo\'s working tree to a scratch directory, appends #[cfg(kani)] harness modules and #[cfg_attr(kani, ..)] contracts there, and generates the Verus input from /repo/src; nothing is enabled inside /repo',
        'baseline_off_cmd': 'cd /repo && cargo test --workspace --no-fail-fast --offline',
        'source_commits': [],
        'add_only': True,
    },
    'engines': [
        {'name': 'contracts', 'path': 'check', 'serves_properties': [c['property_id'] for c in checks],
         'kind_free_text': 'contract-based deductive verification: Verus (requires/ensures/invariants spliced into the mechanically extracted crate) + Kani function contracts / loop-free full-domain harnesses on a scratch copy of the real crate; counterexamples replayed natively'},
    ],
    'checks': checks,
    'notes': 'exit 2 = UNDECIDED (tool/extraction problem), never an alarm. known_findings.txt lists findings and fixes. See DESIGN.md.',
    'not_applicable': na,
}
json.dump(m, open(os.path.join(VERIF, 'MANIFEST.json'), 'w'), indent=1)
print('checks:', [c['property_id'] for c in checks])
print('not_applicable:', [x['property_id'] for x in na])
