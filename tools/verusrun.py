"""Run Verus on the extracted crate and turn its output into per-function obligations."""
import glob
import json
import os
import re
import subprocess
import sys
import time

sys.path.insert(0, os.path.dirname(__file__))
import extract  # noqa: E402
import rsscan  # noqa: E402

VERIF = os.path.dirname(os.path.dirname(os.path.abspath(__file__)))
TOOLCHAIN = '1.98.1-x86_64-unknown-linux-gnu'
DEPS_DIR = os.path.join(VERIF, 'build', 'deps')


def ensure_deps():
    d = os.path.join(DEPS_DIR, 'debug', 'deps')
    need = ['embedded_hal', 'embedded_graphics_core', 'heapless']
    if all(glob.glob(os.path.join(d, 'lib%s-*.rlib' % n)) for n in need):
        return d
    env = dict(os.environ, CARGO_TARGET_DIR=DEPS_DIR, CARGO_NET_OFFLINE='true')
    r = subprocess.run(['cargo', '+' + TOOLCHAIN, 'build', '--offline'], cwd=os.path.join(VERIF, 'deps'),
                       env=env, capture_output=True, text=True)
    if r.returncode != 0:
        raise extract.Undecided('cannot build dependency rlibs: ' + r.stderr[-2000:])
    return d


def check_dep_versions(repo):
    """The rlibs Verus links must be the versions /repo's Cargo.lock pins."""
    def vers(path):
        out = {}
        cur = None
        for ln in open(path):
            m = re.match(r'name = "(.*)"', ln)
            if m:
                cur = m.group(1)
            m = re.match(r'version = "(.*)"', ln)
            if m and cur:
                out[cur] = m.group(1)
                cur = None
        return out
    a = vers(os.path.join(repo, 'Cargo.lock'))
    b = vers(os.path.join(VERIF, 'deps', 'Cargo.lock'))
    bad = [n for n in ('embedded-hal', 'embedded-graphics-core', 'heapless') if a.get(n) != b.get(n)]
    if bad:
        raise extract.Undecided('dependency versions differ from /repo/Cargo.lock: %s' % bad)
    return {n: b[n] for n in ('embedded-hal', 'embedded-graphics-core', 'heapless')}


def run_verus(rs_path, extra=(), rlimit=None, seed=None, threads=16, timeout=900):
    d = ensure_deps()
    cmd = ['verus', rs_path, '--crate-type', 'lib', '--crate-name', 'mipidsi_v',
           '--extern', 'embedded_hal=' + glob.glob(os.path.join(d, 'libembedded_hal-*.rlib'))[0],
           '--extern', 'embedded_graphics_core=' + glob.glob(os.path.join(d, 'libembedded_graphics_core-*.rlib'))[0],
           '--extern', 'heapless=' + glob.glob(os.path.join(d, 'libheapless-*.rlib'))[0],
           '-L', 'dependency=' + d,
           '--output-json', '--time', '--error-format=json', '--num-threads', str(threads),
           '--multiple-errors', '20']
    if rlimit:
        cmd += ['--rlimit', str(rlimit)]
    if seed:
        cmd += ['--smt-option', 'smt.random_seed=%d' % (seed % 1000000), '--smt-option', 'sat.random_seed=%d' % (seed % 1000000)]
    cmd += list(extra)
    t0 = time.time()
    try:
        import kanirun
        r = kanirun.run_group(cmd, os.path.dirname(rs_path), None, timeout)   # own process group: z3 children die with it
    except subprocess.TimeoutExpired:
        raise extract.Undecided('verus timed out after %ds' % timeout)
    wall = time.time() - t0
    js = None
    try:
        js = json.loads(r.stdout)
    except Exception:
        # stdout may contain the JSON object after other text
        i = r.stdout.find('{')
        if i >= 0:
            try:
                js = json.loads(r.stdout[i:])
            except Exception:
                js = None
    diags = []
    for ln in r.stderr.split('\n'):
        ln = ln.strip()
        if ln.startswith('{'):
            try:
                diags.append(json.loads(ln))
            except Exception:
                pass
    return {'cmd': cmd, 'rc': r.returncode, 'json': js, 'diags': diags, 'stderr': r.stderr, 'wall': wall}


def fn_ranges(lines):
    """Map output line -> function key (for attributing diagnostics)."""
    text = '\n'.join(l.text for l in lines)
    m = rsscan.mask(text)
    fns, _, _, _ = rsscan.scan_items(text, m)
    starts = [0]
    for i, ch in enumerate(text):
        if ch == '\n':
            starts.append(i + 1)
    import bisect
    res = []
    for f in fns:
        a = bisect.bisect_right(starts, f.hdr_start) - 1
        b = bisect.bisect_right(starts, f.close) - 1
        res.append((a + 1, b + 1, f.key))
    return res


def summarize(res, lines):
    """Returns dict: functions {vname: {success, time_us, rlimit}}, errors [ {msg, line, origin, fn, kind, notes} ],
    fatal (front-end error messages)."""
    out = {'functions': {}, 'errors': [], 'fatal': [], 'verified': None, 'nerrors': None, 'smt_ms': None}
    js = res['json']
    ranges = fn_ranges(lines)

    def fn_at(line):
        best = None
        for a, b, k in ranges:
            if a <= line <= b and (best is None or a >= best[0]):
                best = (a, b, k)
        return best[2] if best else None

    if js:
        vr = js.get('verification-results', {})
        out['verified'] = vr.get('verified')
        out['nerrors'] = vr.get('errors')
        out['encountered_vir_error'] = vr.get('encountered-vir-error')
        t = js.get('times-ms', {})
        smt = t.get('smt', {})
        out['smt_ms'] = smt.get('total')
        out['total_ms'] = t.get('total')
        for mod in smt.get('smt-run-module-times', []):
            for fb in mod.get('function-breakdown', []):
                name = fb['function'].split('::', 1)[1] if '::' in fb['function'] else fb['function']
                e = out['functions'].setdefault(name, {'success': True, 'time_us': 0, 'rlimit': 0, 'queries': 0, 'mode': fb.get('mode:')})
                e['success'] = e['success'] and bool(fb.get('success'))
                e['time_us'] += fb.get('time-micros', 0)
                e['rlimit'] += fb.get('rlimit', 0)
                e['queries'] += 1
    for d in res['diags']:
        lvl = d.get('level')
        if lvl not in ('error',):
            continue
        msg = d.get('message', '')
        if msg.startswith('aborting due to'):
            continue
        spans = d.get('spans') or []
        prim = [s for s in spans if s.get('is_primary')] or spans
        line = prim[0]['line_start'] if prim else None
        fname = prim[0].get('file_name', '') if prim else ''
        origin = None
        key = None
        src = None
        if line and fname.endswith('.rs') and 'mipidsi' in os.path.basename(fname) and line <= len(lines):
            origin = lines[line - 1].origin
            key = fn_at(line)
            src = lines[line - 1].text.strip()
        notes = []
        for s in spans:
            if not s.get('is_primary'):
                l2 = s.get('line_start')
                o2 = lines[l2 - 1].origin if l2 and s.get('file_name', '').endswith(os.path.basename(fname)) and l2 <= len(lines) else None
                notes.append({'label': s.get('label'), 'line': l2, 'origin': o2,
                              'text': lines[l2 - 1].text.strip() if o2 else None})
        semantic = bool(re.search(r'postcondition not satisfied|precondition not (met|satisfied)|possible arithmetic (over|under)flow|'
                                  r'possible division by zero|assertion failed|invariant not satisfied|decreases not satisfied|'
                                  r'possible bit shift|index in bounds|unreachable|loop invariant|not satisfied|might|recommendation not met|'
                                  r'possible truncation|termination|could not prove|failed this', msg))
        rlimit = bool(re.search(r'resource limit|rlimit|timed out|timeout', msg, re.I))
        rec = {'msg': msg, 'line': line, 'origin': origin, 'fn': key, 'src': src, 'notes': notes,
               'kind': 'rlimit' if rlimit else ('semantic' if semantic else 'frontend')}
        out['errors'].append(rec)
    return out


def extract_key_to_vname(key):
    k = re.sub(r'\[[^\]]*\]', '', key)
    return k.replace('{trait}', '')


def build_and_run(repo, cfgname='default', out_dir=None, rlimit=None, seed=None, extra=(), canary=False):
    cfg = {'default': {'batch': True, 'ptr16': False}, 'nobatch': {'batch': False, 'ptr16': False},
           'ptr16': {'batch': True, 'ptr16': True}}[cfgname]
    out_dir = out_dir or os.path.join(VERIF, 'build', 'verus', cfgname + ('-canary' if canary else ''))
    os.makedirs(out_dir, exist_ok=True)
    degraded = []
    for attempt in range(6):
        lines, counts, report = extract.extract(repo, VERIF, cfg, extra_external=[('fnbody', k, 'auto: ' + w) for k, w in degraded], canary=canary)
        path = os.path.join(out_dir, 'mipidsi_verus.rs')
        open(path, 'w').write('\n'.join(l.text for l in lines) + '\n')
        res = run_verus(path, rlimit=rlimit, seed=seed, extra=extra)
        summ = summarize(res, lines)
        # graceful degradation: a construct Verus' front end rejects inside function F makes F external_body for
        # this run (its obligations are reported as missing -> UNDECIDED for the properties that need them, never
        # an alarm), so that the rest of the crate can still be decided.
        # (errors inside proof text spliced into a function body - origin 'gen: contract <key>' - also mean that the proof no
        # longer fits the function's changed text: degrade that function, not the whole crate)
        fe = [e for e in summ['errors'] if e['kind'] == 'frontend' and e.get('fn') and e.get('origin')
              and (e['origin'][0] == 'src' or (e['origin'][0] == 'gen' and str(e['origin'][1]).startswith('contract ')))]
        new = []
        for e in fe:
            k = e['fn']
            if k not in [d[0] for d in degraded] and k not in [n[0] for n in new]:
                new.append((k, e['msg'][:160]))
        if new and not summ.get('verified'):
            degraded += new
            continue
        break
    summ['degraded'] = degraded + [(k, 'proof anchor lost: ' + w) for k, w in report.get('body_lost', [])]
    summ['counts'] = counts
    summ['report'] = report
    summ['wall'] = res['wall']
    summ['cmd'] = ' '.join(res['cmd'])
    summ['path'] = path
    summ['rc'] = res['rc']
    summ['stderr_tail'] = res['stderr'][-4000:]
    return summ, lines


if __name__ == '__main__':
    cfgname = sys.argv[1] if len(sys.argv) > 1 else 'default'
    canary = 'canary' in sys.argv
    if canary:
        sys.argv.remove('canary')
    try:
        summ, lines = build_and_run('/repo', cfgname, extra=sys.argv[2:], canary=canary)
        if canary:
            vac = [k for k in summ['report'].get('canaries', []) if summ['functions'].get(extract_key_to_vname(k), {}).get('success', False)]
            print('canaries:', len(summ['report'].get('canaries', [])), 'vacuous (verified although `false` was added):', vac)
    except extract.Undecided as e:
        print('UNDECIDED:', e)
        sys.exit(2)
    if summ.get('degraded'):
        print('DEGRADED (front end rejected a construct; treated as external_body in this run):', summ['degraded'])
    print('verified', summ['verified'], 'errors', summ['nerrors'], 'wall %.1fs' % summ['wall'], 'smt_ms', summ['smt_ms'])
    for e in summ['errors']:
        print('-', e['kind'], '|', e['msg'][:140], '|', e['fn'], '|', e['origin'], '|', (e['src'] or '')[:100])
        seen = set()
        for n in e['notes']:
            kk = (n['label'], str(n['origin']))
            if kk in seen:
                continue
            seen.add(kk)
            if n['label'] or n['text']:
                print('      note:', n['label'], '|', n['origin'], '|', (n['text'] or '')[:100])
    bad = [k for k, v in summ['functions'].items() if not v['success']]
    print('failed functions:', bad)
    if summ['json_missing'] if 'json_missing' in summ else False:
        print(summ['stderr_tail'])
    if summ['verified'] is None and not summ['errors']:
        print(summ['stderr_tail'])
