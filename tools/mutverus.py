#!/usr/bin/env python3
"""quick local mutation test (Verus only): mutverus.py <relative file> <old text> <new text> [cfg]"""
import os, shutil, sys, tempfile
sys.path.insert(0, os.path.dirname(__file__))
import verusrun
rel, old, new = sys.argv[1:4]
cfg = sys.argv[4] if len(sys.argv) > 4 else 'default'
d = tempfile.mkdtemp(prefix='mutv.', dir='/tmp')
try:
    shutil.copytree('/repo/src', os.path.join(d, 'src'))
    shutil.copy('/repo/Cargo.lock', d); shutil.copy('/repo/Cargo.toml', d)
    p = os.path.join(d, 'src', rel)
    s = open(p).read()
    assert s.count(old) >= 1, 'old text not found'
    open(p, 'w').write(s.replace(old, new, 1))
    summ, lines = verusrun.build_and_run(d, cfg, out_dir=os.path.join(d, 'v'))
    print('verified', summ['verified'], 'errors', summ['nerrors'], 'degraded', summ.get('degraded'))
    for e in summ['errors'][:8]:
        print(' -', e['kind'], e['msg'][:90], '|', e['fn'], '|', (e['src'] or '')[:90])
finally:
    shutil.rmtree(d, ignore_errors=True)
