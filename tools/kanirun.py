"""Kani runner: scratch copy of /repo's working tree + overlay (DESIGN.md section 2.2).

The overlay only *adds*: `#[cfg(kani)] #[path = ...] mod vk_<name>;` lines at the end of module
files (harness modules live in /verif/contracts/kani) and `#[cfg_attr(kani, kani::...)]` contract
attributes above functions named in contracts/kani/contracts.txt.  Nothing is written to /repo.
"""
import json
import os
import re
import shutil
import subprocess
import sys
import tempfile
import time

sys.path.insert(0, os.path.dirname(__file__))
import rsscan  # noqa: E402
from extract import Undecided  # noqa: E402

VERIF = os.path.dirname(os.path.dirname(os.path.abspath(__file__)))
KDIR = os.path.join(VERIF, 'contracts', 'kani')
TARGET = os.path.join(VERIF, 'build', 'kani', 'target')

# module file (relative to src/) -> harness file in contracts/kani mounted as a child module there
MOUNTS = [
    ('lib.rs', 'support.rs', 'vk_support'),
    ('lib.rs', 'root.rs', 'vk_root'),
    ('lib.rs', 'deps.rs', 'vk_deps'),
    ('graphics.rs', 'graphics.rs', 'vk_graphics'),
    ('batch.rs', 'batch.rs', 'vk_batch'),
    ('interface.rs', 'interface.rs', 'vk_interface'),
    ('interface/spi.rs', 'spi.rs', 'vk_spi'),
    ('interface/parallel.rs', 'parallel.rs', 'vk_parallel'),
    ('builder.rs', 'builder.rs', 'vk_builder'),
    ('dcs.rs', 'dcs.rs', 'vk_dcs'),
    ('dcs/set_address_mode.rs', 'set_address_mode.rs', 'vk_madctl'),
    ('dcs/set_pixel_format.rs', 'set_pixel_format.rs', 'vk_colmod'),
    ('options/orientation.rs', 'orientation.rs', 'vk_orientation'),
    ('test_image.rs', 'test_image.rs', 'vk_test_image'),
    ('models.rs', 'models.rs', 'vk_models'),
]


def load_contracts():
    """contracts.txt blocks:  @ <src file> :: <fn key as produced by rsscan>\n <attribute lines>"""
    path = os.path.join(KDIR, 'contracts.txt')
    res = []
    if not os.path.exists(path):
        return res
    cur = None
    for ln in open(path).read().split('\n'):
        if ln.startswith('@'):
            f, key = [x.strip() for x in ln[1:].split('::', 1)]
            cur = {'file': f, 'key': key, 'attrs': []}
            res.append(cur)
        elif ln.strip() and not ln.strip().startswith('//') and cur is not None:
            cur['attrs'].append(ln.rstrip())
    return res


def make_scratch(repo, swap_ptr16=False, features_note=None, files=None):
    d = tempfile.mkdtemp(prefix='vk.', dir=os.environ.get('VERIF_SCRATCH', '/tmp'))
    dst = os.path.join(d, 'repo')

    def ign(path, names):
        return [n for n in names if n in ('target', '.git', 'examples')]

    shutil.copytree(repo, dst, ignore=ign, symlinks=True)
    # drop workspace examples reference if any; keep Cargo.lock as is
    src = os.path.join(dst, 'src')
    used = []
    # harness files are copied into the scratch tree (concrete playback edits them in place)
    hdir = os.path.join(dst, 'vk_harness')
    shutil.copytree(KDIR, hdir)
    for rel, hfile, modname in MOUNTS:
        hp = os.path.join(hdir, hfile)
        if not os.path.exists(hp):
            continue
        if files is not None and hfile != 'support.rs' and hfile not in files:
            continue   # only the harness modules this property needs are mounted
        p = os.path.join(src, rel)
        if not os.path.exists(p):
            raise Undecided('overlay: %s not found (lost anchor)' % rel)
        vis = 'pub(crate) ' if modname == 'vk_support' else ''
        with open(p, 'a') as f:
            f.write('\n#[cfg(kani)]\n#[path = "%s"]\n%smod %s;\n' % (hp, vis, modname))
        used.append(modname)
    for c in load_contracts():
        p = os.path.join(src, c['file'])
        if not os.path.exists(p):
            raise Undecided('overlay: %s not found (lost anchor)' % c['file'])
        text = open(p).read()
        fns, _, _, _ = rsscan.scan_items(text)
        hit = [f for f in fns if f.key == c['key']]
        if len(hit) != 1:
            raise Undecided('overlay: fn %s in %s matched %d times (lost anchor)' % (c['key'], c['file'], len(hit)))
        pos = hit[0].hdr_start
        ind = re.match(r'[ \t]*', text[pos:]).group(0)
        ins = ''.join('%s#[cfg_attr(kani, %s)]\n' % (ind, a.strip()) for a in c['attrs'])
        text = text[:pos] + ins + text[pos:]
        open(p, 'w').write(text)
    if swap_ptr16:
        # compile the 16-bit-pointer bodies on the host: swap the two cfg predicates (graphics.rs only)
        p = os.path.join(src, 'graphics.rs')
        t = open(p).read()
        a = '#[cfg(not(target_pointer_width = "16"))]'
        b = '#[cfg(target_pointer_width = "16")]'
        if a not in t or b not in t:
            raise Undecided('ptr16 swap: cfg predicates not found in graphics.rs')
        t = t.replace(a, '@@A@@').replace(b, a).replace('@@A@@', b)
        open(p, 'w').write(t)
    cfgd = os.path.join(dst, '.cargo')
    os.makedirs(cfgd, exist_ok=True)
    with open(os.path.join(cfgd, 'config.toml'), 'a') as f:
        f.write('\n[net]\noffline = true\n')
    return d, dst


class _Res:
    def __init__(self, rc, out, err):
        self.returncode, self.stdout, self.stderr = rc, out, err


def run_group(cmd, cwd, env, timeout):
    """subprocess.run(capture_output, text) in its own process group; on timeout the WHOLE group is killed (cargo-kani's
    cbmc children would otherwise survive and keep cores and memory busy) and subprocess.TimeoutExpired is re-raised."""
    import signal
    p = subprocess.Popen(cmd, cwd=cwd, env=env, stdout=subprocess.PIPE, stderr=subprocess.PIPE, text=True, start_new_session=True)
    try:
        out, err = p.communicate(timeout=timeout)
        return _Res(p.returncode, out, err)
    except subprocess.TimeoutExpired:
        try:
            os.killpg(os.getpgid(p.pid), signal.SIGKILL)
        except Exception:
            pass
        try:
            out, err = p.communicate(timeout=30)
        except Exception:
            out, err = '', ''
        raise subprocess.TimeoutExpired(cmd, timeout, output=out, stderr=err)



def run_kani(dst, harnesses, features=None, no_default=False, extra=(), timeout=1800, playback=False, jobs=None, unwind=None):
    """Runs the given harnesses in one cargo-kani invocation.  Returns dict harness -> result."""
    os.makedirs(TARGET, exist_ok=True)
    env = dict(os.environ, CARGO_NET_OFFLINE='true', CARGO_TARGET_DIR=TARGET)
    cmd = ['cargo', 'kani', '-p', 'mipidsi', '-Z', 'function-contracts', '-Z', 'stubbing', '--output-format', 'regular']
    if no_default:
        cmd += ['--no-default-features']
    if features:
        cmd += ['--features', features]
    if jobs and jobs > 1:
        cmd[cmd.index('--output-format') + 1] = 'terse'
        cmd += ['-j', str(jobs)]
    if playback:
        cmd += ['-Z', 'concrete-playback', '--concrete-playback=print']
    if unwind:
        cmd += ['--default-unwind', str(unwind)]
    for h in harnesses:
        cmd += ['--harness', h]
    cmd += list(extra)
    t0 = time.time()
    lock = open(os.path.join(os.path.dirname(TARGET), '.lock'), 'w')
    import fcntl
    fcntl.flock(lock, fcntl.LOCK_EX)
    try:
        r = run_group(cmd, dst, env, timeout)
        out = r.stdout + '\n' + r.stderr
        rc = r.returncode
    except subprocess.TimeoutExpired as e:
        out = ((e.stdout or b'').decode() if isinstance(e.stdout, bytes) else (e.stdout or '')) + '\nTIMEOUT'
        rc = 124
    finally:
        fcntl.flock(lock, fcntl.LOCK_UN)
    wall = time.time() - t0
    return parse_kani(out, harnesses, rc, wall, ' '.join(cmd))


def parse_kani(out, harnesses, rc, wall, cmd):
    res = {'rc': rc, 'wall': wall, 'cmd': cmd, 'harness': {}, 'raw_tail': out[-6000:], 'compile_error': False}
    if re.search(r'^error(\[E\d+\])?:', out, re.M) and 'Checking harness' not in out:
        res['compile_error'] = True
    # split per harness (sequential: 'Checking harness X...' then the result; parallel (-j): 'Thread k: Checking harness X...'
    # and later a result block introduced by a bare 'Thread k: ' line)
    blocks = []
    if re.search(r'^Thread \d+: Checking harness', out, re.M):
        cur = {}
        lines_ = out.split('\n')
        i = 0
        while i < len(lines_):
            ln = lines_[i]
            m = re.match(r'^Thread (\d+): Checking harness (\S+?)\.\.\.\s*$', ln)
            if m:
                cur[m.group(1)] = m.group(2)
                i += 1
                continue
            m = re.match(r'^Thread (\d+): \s*$', ln)
            if m and m.group(1) in cur:
                j = i + 1
                body = []
                while j < len(lines_) and not re.match(r'^Thread \d+: ', lines_[j]) and not lines_[j].startswith('Manual Harness Summary') \
                        and not lines_[j].startswith('Complete - '):
                    body.append(lines_[j])
                    j += 1
                blocks.append((cur[m.group(1)], '\n'.join(body)))
                i = j
                continue
            i += 1
    else:
        parts = re.split(r'^Checking harness (\S+?)\.\.\.\s*$', out, flags=re.M)
        for i in range(1, len(parts), 2):
            blocks.append((parts[i], parts[i + 1]))
    for name, body in blocks:
        h = {'status': None, 'checks': 0, 'failed_checks': [], 'time_s': None, 'cover_satisfied': 0, 'cover_total': 0,
             'playback': None, 'unwinding_failed': False}
        m = re.search(r'VERIFICATION:- (SUCCESSFUL|FAILED)', body)
        if m:
            h['status'] = m.group(1)
        m = re.search(r'\*\* (\d+) of (\d+) failed', body)
        if m:
            h['checks'] = int(m.group(2))
            h['nfailed'] = int(m.group(1))
        m = re.search(r'\*\* (\d+) of (\d+) cover properties satisfied', body)
        if m:
            h['cover_satisfied'] = int(m.group(1))
            h['cover_total'] = int(m.group(2))
        m = re.search(r'Verification Time: ([\d.]+)s', body)
        if m:
            h['time_s'] = float(m.group(1))
        for fm in re.finditer(r'Failed Checks: (.*)\n\s*File: "([^"]*)", line (\d+), in (\S+)', body):
            h['failed_checks'].append({'desc': fm.group(1), 'file': fm.group(2), 'line': int(fm.group(3)), 'fn': fm.group(4)})
            if 'unwinding assertion' in fm.group(1):
                h['unwinding_failed'] = True
        pm = re.search(r'Concrete playback unit test for `[^`]*`:\s*```\s*(.*?)```', body, re.S)
        if pm:
            h['playback'] = pm.group(1)
        h['body_tail'] = body[-3000:]
        short = name.split('::')[-1]
        res['harness'][short] = h
        res['harness'][name] = h
    return res


def playback(dst, harness, features=None, no_default=False, timeout=900, synth=False):
    """Ask Kani for a concrete counterexample of a failing harness and replay it natively on the scratch
    copy of the real code.  Returns dict(test_name, test_src, native_log, native_failed, values) or None."""
    os.makedirs(TARGET, exist_ok=True)
    env = dict(os.environ, CARGO_NET_OFFLINE='true', CARGO_TARGET_DIR=TARGET)
    cmd = ['cargo', 'kani', '-p', 'mipidsi', '-Z', 'function-contracts', '-Z', 'stubbing', '-Z', 'concrete-playback',
           '--concrete-playback=inplace', '--harness', harness]
    if no_default:
        cmd += ['--no-default-features']
    if features:
        cmd += ['--features', features]
    try:
        r = run_group(cmd, dst, env, timeout)
    except subprocess.TimeoutExpired:
        return None
    out = r.stdout + r.stderr
    # locate the generated tests in the harness files (Kani emits one per failed check and per satisfied cover)
    hdir = os.path.join(dst, 'vk_harness')
    cands = []
    for f in sorted(os.listdir(hdir)):
        t = open(os.path.join(hdir, f)).read()
        for m in re.finditer(r'fn (kani_concrete_playback_%s_\w+)\(\)' % re.escape(harness.split('::')[-1]), t):
            i = t.rfind('#[test]', 0, m.start())
            j = t.find('\n}', m.end())
            cands.append((m.group(1), t[i:j + 2]))
    if not cands and synth:
        # a harness without symbolic input (termination harness): replay it natively as it is
        short = harness.split('::')[-1]
        for f in sorted(os.listdir(hdir)):
            t = open(os.path.join(hdir, f)).read()
            if re.search(r'fn %s\b' % re.escape(short), t):
                name = 'kani_concrete_playback_%s_0' % short
                src_txt = '#[test]\nfn %s() {\n    let concrete_vals: Vec<Vec<u8>> = vec![];\n    kani::concrete_playback_run(concrete_vals, %s);\n}' % (name, short)
                open(os.path.join(hdir, f), 'a').write('\n' + src_txt + '\n')
                cands.append((name, src_txt))
                break
    if not cands:
        return {'test_name': None, 'kani_out_tail': out[-3000:]}
    best = None
    for name, src_txt in cands[:6]:
        cmd2 = ['cargo', 'kani', 'playback', '-p', 'mipidsi', '-Z', 'concrete-playback']
        if no_default:
            cmd2 += ['--no-default-features']
        if features:
            cmd2 += ['--features', features]
        cmd2 += ['--', name]
        try:
            r2 = run_group(cmd2, dst, env, timeout)
            full = r2.stdout + r2.stderr
            verdict = re.search(r'test \S*%s \.\.\. (ok|FAILED)' % re.escape(name), r2.stdout)
            failed = bool(verdict and verdict.group(1) == 'FAILED') or (verdict is None and 'panicked at' in full and r2.returncode != 0)
            log = (r2.stdout[-2500:] + '\n--- stderr ---\n' + r2.stderr[-1500:])
        except subprocess.TimeoutExpired:
            log, failed = 'native replay timed out (non-termination is itself the finding if the harness is about termination)', True
        rec = {'test_name': name, 'test_src': src_txt, 'native_log': log, 'native_failed': failed,
               'cmd': ' '.join(cmd), 'replay_cmd': ' '.join(cmd2)}
        if best is None:
            best = rec
        if failed:
            return rec
    return best


def cleanup(d):
    shutil.rmtree(d, ignore_errors=True)


if __name__ == '__main__':
    d, dst = make_scratch('/repo')
    try:
        r = run_kani(dst, sys.argv[1:])
        for k, v in r['harness'].items():
            if '::' in k:
                continue
            print(k, v['status'], 'checks', v['checks'], 'time', v['time_s'], 'cover %d/%d' % (v['cover_satisfied'], v['cover_total']))
            for fc in v['failed_checks']:
                print('   FAILED:', fc)
        if not r['harness']:
            print(r['raw_tail'])
    finally:
        cleanup(d)
