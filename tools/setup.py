#!/usr/bin/env python3
"""MANIFEST.setup_cmd: build what the checks need from files on disk (offline)."""
import os
import subprocess
import sys
sys.path.insert(0, os.path.dirname(__file__))
import verusrun

d = verusrun.ensure_deps()
print('dependency rlibs for Verus:', d)
os.makedirs(os.path.join(verusrun.VERIF, 'build', 'kani'), exist_ok=True)
os.makedirs(os.path.join(verusrun.VERIF, 'evidence'), exist_ok=True)
r = subprocess.run(['verus', '--version'], capture_output=True, text=True)
print(r.stdout.strip())
r = subprocess.run(['cargo', 'kani', '--version'], capture_output=True, text=True)
print(r.stdout.strip())
