#!/bin/sh
# usage: seed_batch.sh PROP [checks]   -- evaluates /tmp/mut/out/PROP/patch_*.diff
P=$1; C=${2:-$1}
for f in /tmp/mut/out/$P/patch_*.diff; do k=$(basename $f .diff | sed 's/patch_//'); 
  EX=""; grep -q "no-default-features" /tmp/mut/out/$P/demo_$k.rs && EX="--features --no-default-features"
  python3 $(dirname $0)/seed_eval.py $P $f /tmp/mut/out/$P/demo_$k.rs --checks $C $EX; done
