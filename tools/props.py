"""Per-property configuration: which obligations decide which property.

verus.fns    regexes over the function names Verus reports for the extracted crate
kani.groups  harness groups (one cargo-kani invocation each); 'quick' always run, 'thorough' added in the thorough tier;
             'bounded': {harness: bound text} marks bounded stand-ins (reported separately, never counted as proved)
pairs        Verus function regex -> Kani harnesses used to look for a concrete failing input
complete_pairs  Verus functions whose Kani pair is complete over the same domain (no generic parameter)
"""

COMMON_TRUSTED = [
    'Verus 0.2026.09.13 (VIR/AIR encoding, &mut/prophecy encoding), Z3 as shipped with Verus, vstd specifications',
    'Kani 0.68.0 / CBMC 6.11.0 / CaDiCaL, rustc front ends of both tool chains',
    'extractor tools/extract.py: module inlining + the drop/rewrite table of DESIGN.md 2.1 (applications counted in verus_runs.*.rewrite_counts)',
    'machine arithmetic: Verus checks Rust integer semantics with usize = 64 bit; Kani is bit-precise on the x86_64 host',
]

DCS_FNS = [r'^dcs::set_\w+::\w+::(instruction|fill_params_buf|new|with_all|as_u8)$', r'^dcs::\w+::(instruction|fill_params_buf)$',
           r'^dcs::InterfaceExt::write_(command|raw)$', r'^dcs::lemma_basic_opcodes$',
           r'^dcs::set_\w+::lemma_\w+_params$', r'^dcs::set_\w+::\w+::lemma_params_len$', r'^vf::u16_to_be_bytes$']

NOT_APPLICABLE = {}

MODELS = ['gc9107', 'gc9a01', 'ili9341rgb565', 'ili9341rgb666', 'ili9342crgb565', 'ili9342crgb666', 'ili9486rgb565', 'ili9486rgb666', 'ili9488rgb565', 'ili9488rgb666', 'rm67162', 'st7735s', 'st7789', 'st7796']
UNSUPPORTED = {('gc9107', 2), ('rm67162', 2), ('ili9486rgb565', 0)}
INIT_ALL = ['init_%s_k%d' % (m, k) for m in MODELS for k in (0, 1, 2)]
# quick: every model on its first supported kind + the three refused pairings
INIT_QUICK = ['init_%s_k%d' % (m, 1 if m == 'ili9486rgb565' else 0) for m in MODELS] + ['init_gc9107_k2', 'init_rm67162_k2', 'init_ili9486rgb565_k0']
INIT_REST = [h for h in INIT_ALL if h not in INIT_QUICK]
REFUSE = ['refuse_gc9107_k2', 'refuse_rm67162_k2', 'refuse_ili9486rgb565_k0']


PROPS = {
    'C01': {
        'level_text': "Unbounded proof of the address arithmetic, partial coverage of entry points: Verus proves for every Model, size, offset, orientation and in-bounds rectangle that set_address_window sends CASET/RASET whose addresses, decoded by a MIPI-DCS controller under the MADCTL byte the driver holds (exchange, then mirror), are exactly the cells named by rotate-clockwise / mirror / shift (lemma_mapping_places_pixels), with no overflow, and that set_pixel, set_pixels and fill_solid frame their burst with that window (fill_solid: the clip of the rectangle, one encoded colour per point). Kani proves the same end to end for set_pixel on framebuffers 1x1, 240x320, 320x240, 65535x65535 over all configurations and points. Pixel content and order of set_pixels / fill_contiguous / draw_iter are covered by C03/C04 (Verus), transports by C05-C07.",
        'level_note': "Trusted definition: how the controller decodes MV/MX/MY (vf::ctrl_phys, twin support.rs::oracle_ctrl_phys) - the reading the repo's own draw_memory_mapping test encodes. Entry points draw_iter / fill_contiguous hand their windows to set_address_window under its precondition (C02/C03/C04 contracts); clear is the e-g default method (fill_solid of the bounding box), checked by the Kani harness c01_clear_fills_exactly_the_panel on a 5x4-cell controller simulator over all configurations.",
        'technique': 'Verus contracts + geometry lemma generic in Model/transport; Kani complete set_pixel harness per framebuffer',
        'verus': {'cfgs': ['default', 'nobatch'], 'fns': [r'^Display::(set_address_window|set_pixels|set_pixel|fill_solid|fill_contiguous|draw_iter|draw_batch|size)$', r'^batch::(RowIterator::next|BlockIterator::vf_next|lemma_rows_of|lemma_block_corners)$', r'^options::ModelOptions::display_size$', r'^options::orientation::MemoryMapping::from(_orientation)?$', r'^options::orientation::Rotation::is_(horizontal|vertical)$', r'^vf::lemma_mapping_places_pixels$', r'^dcs::set_(column|page)_address::', r'^dcs::InterfaceExt::write_(command|raw)$']},
        'kani': {'files': ['root.rs', 'graphics.rs'], 'groups': [{'quick': ['c01_set_pixel_240x320', 'c01_set_pixel_1x1', 'c01_clear_fills_exactly_the_panel'], 'thorough': ['c01_set_pixel_320x240', 'c01_set_pixel_max'], 'jobs': 8}]},
        'pairs': {r'set_address_window|set_pixel|lemma_mapping|MemoryMapping|display_size': ['c01_set_pixel_240x320', 'c01_set_pixel_1x1']},
        'functions': ['Display::{set_address_window,set_pixels,set_pixel}', 'DrawTarget::fill_solid', 'OriginDimensions::size', 'ModelOptions::display_size', 'MemoryMapping::from_orientation', 'SetColumnAddress/SetPageAddress'],
        'assumptions': ['controller decode of MADCTL bits (trusted oracle)', 'Interface trait contract for generic transports', 'clear: e-g default method, Kani on the simulator only'],
    },
    'C02': {
        'level_text': 'Unbounded proof for every DrawTarget entry point the driver implements, in both feature configurations. Verus proves on the real code, for every Model, transport, configuration, rectangle (valid for embedded-graphics, < 2^32 points) and finite lawful stream: fill_solid and fill_contiguous send nothing when the rectangle misses the bounding box and otherwise exactly one window that is the clip of the rectangle, with no arithmetic overflow and no error the bus did not produce; draw_iter without `batch` sends, for a stream with arbitrary i32 coordinates, exactly the events of set_pixel for the in-bounds pixels in stream order (px_events); draw_iter with `batch` passes the stream through the bounding-box filter and then emits well-formed blocks whose pixels, concatenated, are exactly the in-bounds pixels of the stream in stream order (batch_result) - so out-of-bounds pixels are discarded and the remainder is drawn as if they had not been supplied, with no overflow in the 16-bit batching arithmetic; every window handed to set_address_window lies inside the logical area (its precondition, discharged at every call site, for blocks via their corner pixels being stream pixels), and C01 places such windows inside the panel. Kani proves end to end on a recording bus: one pixel with arbitrary i32 x i32 coordinates through draw_iter without `batch` over all configurations of 240x320 / 65535x65535 framebuffers (complete), fill_solid over all valid rectangles and clear on a 5x4-cell controller simulator.',
        'level_note': "`clear` is the e-g default method (fill_solid of the bounding box): Kani on the simulator only. Termination of the batching loops is not proved (vstd gives no measure for an inner stream after it returned None). Assumed library contracts: core's Filter adapter (A-filter), heapless::Vec model (A-hv-*), e-g Rectangle operations. Batch mode is cross-checked by Kani with one pixel of arbitrary i32 coordinates in every orientation (complete for that panel) and, in the thorough tier, two arbitrary pixels (bounded). The 16-bit-pointer variants are not compiled on the host (C04).",
        'technique': 'Verus contracts on fill_solid / fill_contiguous / draw_iter(nobatch) with clip and px_events spec functions; Kani complete one-pixel and rectangle harnesses',
        'verus': {'cfgs': ['default', 'nobatch'], 'fns': [r'^Display::(fill_solid|fill_contiguous|draw_iter|draw_batch|set_pixels|set_pixel|set_address_window|size|lemma_px_events_extends|lemma_blocks_events_extends)$', r'^graphics::(TakeSkip::(new|next)|take_u32|vf_lemma_filtered_inb)$', r'^batch::(RowIterator::next|BlockIterator::vf_next|to_rows|to_blocks|lemma_\w+)$', r'^options::ModelOptions::display_size$']},
        'kani': {'files': ['root.rs', 'graphics.rs'], 'groups': [
            {'quick': ['c02_draw_iter_one_pixel_default', 'c02_draw_iter_one_pixel_240x320'], 'thorough': ['c02_draw_iter_one_pixel_max'], 'no_default': True, 'jobs': 8},
            {'quick': ['c02_fill_solid_any_rectangle', 'c01_clear_fills_exactly_the_panel', 'c02_batch_draw_iter_one_pixel_any_orientation'], 'thorough': ['c02_batch_draw_iter_one_pixel'], 'jobs': 8}]},
        'pairs': {r'draw_iter|draw_batch|RowIterator|BlockIterator': ['c02_draw_iter_one_pixel_default', 'c02_draw_iter_one_pixel_240x320', 'c02_batch_draw_iter_one_pixel_any_orientation'], r'fill_solid': ['c02_fill_solid_any_rectangle']},
        'functions': ['DrawTarget::{fill_solid,fill_contiguous,draw_iter(nobatch)}', 'Display::{set_pixels,set_pixel,set_address_window}', 'TakeSkip::next', 'take_u32'],
        'assumptions': ['e-g Rectangle::{intersection,bottom_right,contains} set-theoretic contracts (assumed; Kani runs the real e-g code)', 'A-filter (core Filter adapter), A-hv-* (heapless::Vec model), A-yields (into_iter)', 'clear = e-g default method, Kani only', 'streams are finite and lawful; termination of the batching loops not proved'],
    },
    'C03': {
        'level_text': "Unbounded proof of the whole batch path at the bus-trace level. Verus proves on the real code, for every finite lawful pixel stream (any order, gaps, repeats, runs longer than the capacities) and every configuration: RowIterator::next is a lawful prophetic iterator whose output is the functional reading rows_of(state, stream) of the same greedy algorithm (vstd's iterator laws are its proof obligations, for every accumulator state), and lemma_rows_of shows that the pixels of those rows, concatenated, are exactly accumulator + stream - nothing dropped (including the trailing partial row and the pixel that triggers a flush), duplicated, recoloured or reordered; BlockIterator::next (verified as the inherent twin vf_next, same text) conserves the row pixels in the same sense, a block being the row-major reading of equal-shape vertically adjacent rows; draw_batch composes them: the bus trace is one window + RAMWR + colours per block, the blocks are well formed (colours = width x height <= capacity) and their pixels read block after block in row-major order are exactly the in-bounds pixels of the stream in stream order (batch_result). Without `batch`, draw_iter equals the set_pixel sequence outright (px_events). The last step of the statement - that writing a block through a window and writing its pixels one by one leave the same panel content - follows from C01's window geometry and the controller's row-major write pointer; it is argued, not machine-checked.",
        'level_note': 'Order-sensitive last-write-wins is preserved because the pixel ORDER is preserved (flat_blocks == stream). Termination of the two batching loops and of draw_batch is not proved. Kani cross-checks: batch mode with one arbitrary pixel in every orientation (quick, complete for that panel) and two arbitrary pixels incl. a vertical merge (thorough, bounded, ~20 min); the nobatch path has 2-3 pixel harnesses on the controller simulator (bounded).',
        'technique': 'Verus: RowIterator as a lawful prophetic iterator over a functional reading + conservation lemma, BlockIterator conservation contract, draw_batch loop proof (trace == blocks of the stream); nobatch draw_iter loop proof; bounded Kani harnesses (nobatch)',
        'verus': {'cfgs': ['default', 'nobatch'], 'fns': [r'^batch::(RowIterator::next|BlockIterator::vf_next|to_rows|to_blocks|lemma_\w+|flat_rows|flat_blocks|rows_of)$', r'^Display::(draw_iter|draw_batch|lemma_px_events_extends|lemma_blocks_events_extends|set_pixel|set_pixels)$', r'^graphics::vf_lemma_filtered_inb$']},
        'kani': {'files': ['graphics.rs', 'root.rs'], 'groups': [{'quick': ['c02_batch_draw_iter_one_pixel_any_orientation'], 'thorough': ['c03_batch_two_pixels'], 'bounded': {'c03_batch_two_pixels': '2 pixels, 240x320 panel, default configuration, batch mode'}, 'jobs': 8}, {'quick': ['c03_draw_iter_two_pixels'], 'thorough': ['c03_draw_iter_equals_set_pixel_sequence'], 'no_default': True,
                                                     'bounded': {'c03_draw_iter_two_pixels': '2 pixels, 5x4 panel, default orientation, nobatch', 'c03_draw_iter_equals_set_pixel_sequence': '<= 3 pixels, 5x4-cell simulator, all configurations, nobatch'}, 'jobs': 8}]},
        'functions': ['RowIterator::next', 'BlockIterator::next (as vf_next)', 'to_rows', 'to_blocks', 'DrawBatch::draw_batch', 'DrawTarget::draw_iter (batch and nobatch)'],
        'assumptions': ['heapless::Vec model: push/clear/clone/extend_from_slice/into_iter contracts, contents determine the value (A-hv-ext), hv_mk (assumed)', 'block burst == per-pixel writes on the panel: argued from C01, not machine-checked', 'BlockIterator::next trait method is a shell around the verified twin vf_next (R19); the for-loop in draw_batch calls it (R13 twin)', 'termination of the batching loops not proved', 'A-filter, A-yields'],
    },
    'C04': {
        'level_text': "Unbounded proof on 32/64-bit targets: Verus proves on the real fill_contiguous, TakeSkip::next (as a lawful prophetic iterator: vstd's iterator laws are its proof obligations) and take_u32, for every rectangle (valid, < 2^32 points), every finite lawful colour stream of any length and every configuration: nothing is sent when the rectangle misses the display; otherwise one window = the clip, and the burst is fc_colors(area, clip, stream) - the stream after skipping rows-above x width + columns-left, read as take clip-width / skip (width - clip-width) alternately (ts_seq), cut at the clip size; no overflow in the skip arithmetic. lemma_ts_seq / lemma_fc_colors then prove the statement of the property about that burst: its j-th colour is stream[(dy + j / cw) * W + dx + j % cw], i.e. the colour of the j-th visible point in the rectangle's own row-major order (colour k on point k), the burst ends exactly where the stream no longer reaches a visible point (early end: remaining points untouched, no error), surplus colours are ignored (length <= clip area), clipped colours are skipped, never shifted. The bounded Kani harness (rectangles with corner -2..5 and sides <= 6x5 against a 5x4-cell controller simulator, stream length 0..area+2, all configurations) checks the same end to end through the real Iterator::nth/take.",
        'level_note': 'Iterator::nth through `&mut` (A-nth) and Iterator::take (vstd) are assumed contracts, cross-checked by the bounded harness. The 16-bit-pointer variants of take_u32 / nth_u32 (take_while with a counter; a loop of next()) are outside the subset Verus accepts; their bodies do not mention usize, so Kani compiles them on the host by exchanging the two cfg(target_pointer_width) predicates on its scratch copy and runs the bounded end-to-end harness on them (kani[ptr16]:c04_fill_contiguous_plain): bounded only, not proved.',
        'technique': 'Verus: TakeSkip as a lawful prophetic iterator + fill_contiguous contract over a recursive take/skip spec function; bounded Kani end-to-end harness',
        'verus': {'cfgs': ['default'], 'fns': [r'^Display::(fill_contiguous|set_pixels)$', r'^graphics::(TakeSkip::(new|next)|take_u32|ts_seq|ts_idx|fc_\w+|lemma_\w+)$']},
        'kani': {'files': ['graphics.rs'], 'groups': [{'quick': ['c04_fill_contiguous_plain'], 'thorough': ['c04_fill_contiguous_colour_k_on_point_k'], 'no_default': True,
                                                     'bounded': {'c04_fill_contiguous_plain': 'rectangle corner x -2..=5, y -2..=4, sides <= 8 x 2 (both side edges can be clipped at once), 5x4 panel, default orientation, stream length <= area + 2', 'c04_fill_contiguous_colour_k_on_point_k': 'rectangle corner -2..=5, sides <= 8 x 5, 5x4-cell simulator, stream length <= area + 2'}, 'jobs': 8},
            # the bodies of take_u32 / nth_u32 that 16-bit-pointer targets compile (cfg predicates of graphics.rs exchanged on the scratch copy;
            # the bodies themselves do not mention usize): same end-to-end statement, bounded
            {'quick': ['c04_fill_contiguous_plain'], 'no_default': True, 'ptr16': True,
             'bounded': {'c04_fill_contiguous_plain': '16-bit-pointer bodies of take_u32/nth_u32 compiled on the host; rectangle corner x -2..=5, y -2..=4, sides <= 8 x 2, 5x4 panel, stream length <= area + 2'}, 'jobs': 8}]},
        'functions': ['DrawTarget::fill_contiguous', 'TakeSkip::{new,next}', 'take_u32 (>= 32-bit pointers: Verus; 16-bit bodies: bounded Kani)', 'nth_u32 (bounded Kani, both bodies)'],
        'assumptions': ['A-nth: nth_u32(&mut it, n) advances it past item n (core Iterator::nth; assumed, bounded Kani cross-check)', 'vstd Iterator::take specification', '16-bit-pointer variants of take_u32/nth_u32: bounded Kani only (cfg predicates exchanged on the scratch copy), never counted as proved',
                        'closed form of ts_seq: Verus lemma (lemma_ts_seq, lemma_fc_colors)'],
    },
    'C08': {
        'level_text': "Unbounded proof of the grammar and of the window parameters for every drawing entry point: Verus proves that set_pixel, set_pixels, fill_solid, fill_contiguous and draw_iter (both feature configurations; batch mode via draw_batch) append to the bus trace nothing but groups CASET(4 bytes) RASET(4 bytes) RAMWR pixel-burst - as exact trace equalities (with_window / fill_events / px_events / blocks_events), so order, parameter length and big-endian layout are part of the postcondition; set_address_window's precondition sx <= ex < width, sy <= ey < height is discharged at every call site, and C01 shows start <= end and end inside the framebuffer after the orientation shift, without u16 overflow. Burst length: fill_solid sends exactly clip-width x clip-height pixels, fill_contiguous at most that many (take_u32), set_pixel one, a batch block exactly (x_right-x_left+1) x (y_bottom-y_top+1) colours (block_ok). At transport level the Interface contract (proved for SPI and parallel) says a burst is a whole number of N-word pixels. Not covered: set_pixels itself does not bound its stream against the window (documented: 'drawing will wrap around').",
        'level_note': "The event trace is ghost state threaded through the Interface trait (G1); for SPI/parallel it is tied to the hal-level logs in C06/C07.",
        'technique': 'Verus trace-equality postconditions over the ghost event trace at the Interface boundary',
        'verus': {'cfgs': ['default', 'nobatch'], 'fns': [r'^interface::impl&%\d+::send_(command|pixels|repeated_pixel)$', r'Rgb(565|666)::send_(pixels|repeated_pixel)$', r'^Display::(set_address_window|set_pixels|set_pixel|fill_solid|fill_contiguous|draw_iter|draw_batch)$', r'^graphics::take_u32$', r'^batch::(BlockIterator::vf_next|lemma_block_corners)$', r'^dcs::set_(column|page)_address::', r'^dcs::WriteMemoryStart::', r'^dcs::InterfaceExt::write_(command|raw)$']},
        'kani': {'files': ['graphics.rs'], 'groups': [{'quick': ['c02_fill_solid_any_rectangle', 'c01_clear_fills_exactly_the_panel'], 'thorough': [], 'jobs': 4}]},
        'functions': ['Display::{set_address_window,set_pixels,set_pixel}', 'DrawTarget::{fill_solid,fill_contiguous,draw_iter(nobatch)}', 'SetColumnAddress/SetPageAddress/WriteMemoryStart'],
        'assumptions': ['set_pixels does not limit its stream (by design)', 'clear: e-g default method'],
    },
    'C19': {
        'level_text': "Complete over all target sizes at call level, bounded at pixel level. Kani proves on the real TestImage::draw, for every target size 0..65535 x 0..65535 at once (a recording DrawTarget of symbolic size: drawing is loop-free except the constant 20-row marker loop): no panic, only fill_contiguous / fill_solid are used (the target's clipping is relied on); and for every size >= 32 x 32: the first call is a contiguous fill of exactly the bounding box, all later solid fills stay inside the 5-pixel margin and glyph fills never reach the outermost ring (so the ring shows only the border stream), green over the inner area, red = left third, blue = right third with green remaining between, 20 marker rows at the top-left, and corner witness points (white / blue / red / blue) that every one of the seven non-trivial symmetries moves onto a differently coloured point (or changes the picture size). The colours of the border stream itself (white exactly on the outermost ring, every pixel painted) are checked by a bounded harness for targets up to 4x4 (quick) / 6x6 (thorough).",
        'level_note': "The call-level harnesses run for Rgb565 (quick), Rgb666 and Rgb888 (no-panic quick, structure thorough); the bounded border harness for Rgb565. 'Drawn through a real Display' is the composition with C02/C04 (fill_contiguous / fill_solid contracts). Verus is not used: test_image.rs is external in the Verus build (e-g Drawable/Character code).",
        'technique': 'Kani harness over a symbolic-size recording draw target (complete at call level); bounded Kani harness for the border colours',
        'kani': {'files': ['test_image.rs'], 'groups': [{'quick': ['c19_no_panic_any_size', 'c19_structure_and_symmetry_witnesses', 'c19_no_panic_any_size_rgb666', 'c19_no_panic_any_size_rgb888', 'c19_border_ring_bounded_4'], 'thorough': ['c19_structure_and_symmetry_witnesses_rgb666', 'c19_structure_and_symmetry_witnesses_rgb888', 'c19_border_ring_bounded_6'],
                                                       'bounded': {'c19_border_ring_bounded_4': 'targets 1..=4 x 1..=4', 'c19_border_ring_bounded_6': 'targets 1..=6 x 1..=6'}, 'jobs': 8}]},
        'functions': ['TestImage::draw', 'draw_border', 'draw_color_bars', 'draw_top_left_marker'],
        'assumptions': ['glyph pixel content not checked', 'border colours: bounded sizes only (Rgb565)'],
    },
    'C20': {
        'level_text': 'Unbounded proofs for all three clauses. Verus proves that fill_solid and fill_contiguous emit exactly one window per call (trace equality with one fill_events group; clear is fill_solid of the bounding box) and that draw_batch emits exactly one window per block (blocks_events); RowIterator::next is proved to implement the functional reading rows_of, and lemma_rows_maximal proves that consecutive rows of rows_of are never mergeable: a row is closed only when it holds 50 = MAX_ROW_SIZE >= 2 pixels or the next row does not continue it to the right on the same line (or the stream ends) - so a left-to-right run is split only at the capacity, and rows/blocks conserve pixels (C03), hence never more windows than rows and never more than one per in-bounds pixel. On the real SPI loops Verus proves the transaction count: send_pixels issues exactly floor(n / p) + 1 writes for n pixels with p = buffer_len / N whole pixels per buffer, send_repeated_pixel at most floor(count / p) + 1 (bytes and usable bytes are both N times these numbers, so this is floor(b / usable) + 1). Bounded Kani harnesses (buffers 2..5 bytes, <= 5 pixels) cross-check the bound through the real std code.',
        'level_note': 'Row maximality is now a property of the functional reading rows_of that RowIterator::next is proved to implement: a row is closed only when the next in-bounds pixel is not its right-hand neighbour on the same line, when it holds 50 pixels, or at the end of the stream (definition of rows_of, three branches); draw_batch opens exactly one window per block (blocks_events).',
        'technique': 'Verus trace equalities (one window per fill/block), functional reading of RowIterator, loop invariants counting SPI writes; bounded Kani cross-check',
        'verus': {'cfgs': ['default'], 'fns': [r'^Display::(fill_solid|fill_contiguous)$', r'^batch::(RowIterator::next|BlockIterator::vf_next|MAX_ROW_SIZE|MAX_BLOCK_SIZE|rows_of|lemma_rows_\w+)$', r'^Display::draw_batch$', r'^interface::spi::SpiInterface::(send_pixels|send_repeated_pixel)$']},
        'kani': {'files': ['spi.rs', 'graphics.rs', 'root.rs'], 'groups': [{'quick': [], 'thorough': ['c20_batch_adjacent_pair_one_window'], 'bounded': {'c20_batch_adjacent_pair_one_window': '2 adjacent pixels, 240x320 panel, default configuration, batch mode'}, 'jobs': 4}, {'quick': ['c06_repeated_pixel_bounded', 'c06_send_pixels_bounded'], 'thorough': [],
                                                 'bounded': {'c06_repeated_pixel_bounded': 'buffer 2..=5 bytes, N=2, count 1..=5', 'c06_send_pixels_bounded': 'buffer 2..=5 bytes, N=2, <=4 pixels'}, 'jobs': 4}, {'quick': ['c20_fill_solid_one_window_plain', 'c02_fill_solid_any_rectangle'], 'thorough': ['c01_clear_fills_exactly_the_panel'], 'bounded': {'c20_fill_solid_one_window_plain': 'rectangle corner -3..=6 x -3..=5, sides <= 9 x 8, plain 5x4 panel'}, 'jobs': 4}]},
        'functions': ['DrawTarget::{fill_solid,fill_contiguous}', 'RowIterator::next', 'BlockIterator::next (vf_next)', 'SpiInterface::{send_pixels,send_repeated_pixel}'],
        'assumptions': ['chunks_exact_mut contract (assumed)', 'heapless::Vec model'],
    },
    'C06': {
        'level_text': "Unbounded proof of the byte stream: Verus verifies the real loops of SpiInterface::{send_command, send_pixels, send_repeated_pixel} (generic SPI device / DC pin, any buffer length >= one pixel, any pixel size N >= 1, any finite lawful pixel stream, any count) against per-object ghost logs of the hal calls: the concatenation of the bytes written to the SPI device is exactly instruction byte + parameters / the pixel arrays in order / count copies of the pixel, every write succeeded, nothing stale or padded (the postcondition mentions no old buffer byte), the DC pin sees exactly [low, high] per command and nothing during pixel data, and every loop terminates (decreases clauses). The order of DC edges relative to the SPI writes inside send_command and the error variants are proved by Kani on the straight-line unit with a shared wire model (complete). The number of SPI transactions is proved too (send_pixels: exactly floor(n/p)+1, send_repeated_pixel: at most floor(count/p)+1, p = whole pixels per buffer). Bounded Kani harnesses (buffers 2..5 bytes, <= 5 pixels) cross-check the assumed chunks_exact_mut contract and the transaction bound.",
        'level_note': "Assumed std contracts: <[T]>::chunks_exact_mut (prophetic aliasing spec), try_into::<&mut [u8;N]> (wrapper), core::cmp::min (wrapper), IntoIterator::into_iter (wrapper, A-yields). Buffers of 4 GiB or more are outside the specification (capacity() == 0: the pixel count is cast to u32). Interleaving of whole bursts across SPI/DC objects: unit interleaving (Kani) + loops (Verus) composed on paper (DESIGN.md 3.6).",
        'technique': 'Verus loop invariants over prophetic iterators and per-object hal ghost logs; Kani unit interleaving; bounded Kani cross-check',
        'verus': {'cfgs': ['default'], 'fns': [r'^interface::spi::SpiInterface::(send_command|send_pixels|send_repeated_pixel|new|release)$',
                                               r'^vf::lemma_(written_push|written_none|rep_add|flat_add|skip_step)$', r'^vf::(slice_as_array_mut|min_u32|into_iter)$']},
        'kani': {'files': ['spi.rs'], 'nonterm': ['c06_repeat_zero_terminates'],
                 'groups': [{'quick': ['c06_send_command_order_and_faults', 'c06_repeat_zero_terminates', 'c06_repeated_pixel_bounded', 'c06_send_pixels_bounded'],
                             'thorough': [],
                             'bounded': {'c06_repeated_pixel_bounded': 'buffer 2..=5 bytes, N=2, count 1..=5', 'c06_send_pixels_bounded': 'buffer 2..=5 bytes, N=2, <=4 pixels'}, 'jobs': 4}]},
        'pairs': {r'send_repeated_pixel': ['c06_repeat_zero_terminates', 'c06_repeated_pixel_bounded'], r'send_command': ['c06_send_command_order_and_faults']},
        'functions': ['SpiInterface::{send_command,send_pixels,send_repeated_pixel}'],
        'assumptions': ['chunks_exact_mut / try_into / cmp::min / into_iter std contracts (assumed; bounded cross-check)', 'pixel streams are finite and lawful (obeys_prophetic_iter_laws, decrease() is Some)',
                        'composition of unit interleaving and loops across hal objects is argued, not machine-checked'],
    },
    'C07': {
        'level_text': "Unbounded proof of the bursts + complete proof of the pin level. Verus verifies the real loops of ParallelInterface::{send_word, send_command, send_pixels, send_repeated_pixel} (generic bus / pins, any finite lawful pixel stream, any count, any N) against per-object ghost logs: one write strobe ([low, high] on WR) and one bus value per word, in order (instruction word, parameter words, pixel words); DC sees [low, high] only around the instruction; a repeated all-equal-word pixel sets the bus once and issues exactly count*N strobes with the bus untouched (so the latched value stays the word), otherwise the words are sent in order; the strobe count cannot overflow; all loops terminate. Kani proves on the macro-expanded set_value of Generic8BitBus and Generic16BitBus (loop-free) the induction step of `last == Some(v) => the pins show v` for every previous state, every value and every single pin-write failure (cache cleared on failure, nothing written after the failing pin), the base case (new bus has no cache), that send_word latches exactly the word at the rising WR edge from any state satisfying the invariant, and is_same's contract for N in 0..=3. Sequences (send_command with <= 3 parameters, 2 pixels x 2 words, repeated pixel count <= 2) are bounded stand-ins.",
        'level_note': "What OutputBus::set_value does to the pins is decided by Kani (the macro-generated bus types stay outside Verus; Verus sees the trait contract 'one log entry per call'). The value latched at a rising WR edge = last bus value: unit interleaving of send_word by Kani, bursts by Verus, composition argued (DESIGN.md 3.6). Assumed core contracts: array by-value iterator, Range+Map constant stream (A-map-const), From<u8> for the word type (values of command/parameter words are exact only where obeys_from_spec()).",
        'technique': 'Verus loop proofs of the bursts against bus/pin ghost logs; Kani complete induction-step harnesses on the macro-generated bus types; bounded Kani cross-checks',
'verus': {'cfgs': ['default'], 'fns': [r'^interface::parallel::ParallelInterface::(send_word|send_command|send_pixels|send_repeated_pixel|new|release)$',
                                               r'^interface::parallel::lemma_(strobes_add|bus_values_push)$', r'^vf::lemma_(flat_add|flat_const|skip_step)$', r'^vf::(array_into_iter|into_iter|repeat_n)$']},
        'kani': {'files': ['parallel.rs'], 'nonterm': ['c07_repeat_count_no_overflow'], 'groups': [{'quick': ['c07_repeat_count_no_overflow', 'c07_set_value_step_8', 'c07_set_value_step_16', 'c07_new_bus_has_no_cache', 'c07_send_word_latches_word', 'c07_is_same_contract',
                                                      'c07_send_command_bounded', 'c07_send_pixels_bounded'],
                             'thorough': ['c07_send_repeated_pixel_bounded'],
                             'bounded': {'c07_send_command_bounded': '<= 3 parameter bytes', 'c07_send_pixels_bounded': '2 pixels x 2 words', 'c07_send_repeated_pixel_bounded': 'count <= 2, N = 2'}, 'jobs': 8}]},
        'functions': ['Generic8BitBus::set_value', 'Generic16BitBus::set_value', 'ParallelInterface::send_word', 'is_same'],
        'assumptions': ['value latched at a rising WR edge = last bus value: unit step by Kani, bursts by Verus, composition argued', 'array by-value iterator, Range+Map constant stream, From<u8> for the bus word (assumed core contracts)', 'pin-level bursts: bounded Kani stand-ins'],
    },
    'C09': {
        'level_text': "Unbounded proof, generic in the Model: Verus proves on the real Builder::init that a zero or oversize width/height yields InvalidDisplaySize, a fitting size with offset+size beyond the framebuffer yields InvalidDisplayOffset (mathematical integers: the u32 arithmetic cannot wrap), the delay source is unused on rejection, a fitting window is never rejected as a size/offset error, and success implies the window fits and establishes the Display invariant. Kani proves for framebuffers 1x1, 240x320, 320x240, 65535x65535 over all u16^4 and with/without reset pin that init succeeds exactly when the window fits and that reset pin, delay source and bus are untouched on rejection (shared operation counter).",
        'level_note': "'Nothing touched on rejection' for the consumed builder's pin and bus is observable only through mocks: decided by Kani per instantiation; Verus states it for the delay source (a &mut parameter). Success additionally needs a model that accepts the interface kind and a fault-free bus.",
        'technique': 'Verus contract on Builder::init generic in M; Kani complete harness per framebuffer size',
        'verus': {'cfgs': ['default'], 'fns': [r'^builder::Builder::(new|reset_pin|display_size|display_offset)$', r'^options::ModelOptions::(full_size|with_all)$', r'^builder::Builder::init$', r'^builder::InitError::from$', r'^models::ModelInitError::from$']},
        'kani': {'files': ['builder.rs'], 'groups': [{'quick': ['c09_init_1x1', 'c09_init_240x320', 'c09_init_max'], 'thorough': ['c09_init_320x240'], 'jobs': 8}]},
        'pairs': {r'Builder::init': ['c09_init_240x320', 'c09_init_1x1', 'c09_init_max']},
        'functions': ['Builder::init', 'From<ModelInitError> for InitError'],
        'assumptions': ['Model trait contract for third-party models', 'hypothesis of the Verus contract: the transport can carry one pixel (capacity >= words per pixel)'],
    },
    'C13': {
        'level_text': "Unbounded proof over histories by invariant: Verus proves (generic Model/transport) that Builder::init leaves the flag false with the controller awake, that sleep / wake send exactly 0x10 / 0x11, set the flag accordingly, leave it unchanged on error and let at least 120 ms of delay elapse, and that every successful Display method preserves 'flag == sleep state decoded from the bus trace' (sleep_inv; the decoder vf::ctrl folds every command sent). Kani proves the induction step on the compiled code with a decoding mock and a shared timeline: flag == controller state after any of six operations from any consistent state with optional bus fault, delay after the command, commands >= 120 ms apart; init harnesses assert the base case for all 14 models.",
        'level_note': "`unsafe fn dcs()` (raw access) is outside the property. Virtual time. After a failed bus operation the controller state is unknown; the flag then still equals the last successful sleep/wake.",
        'technique': 'Verus invariant (sleep_inv) over a trace decoder + Kani induction-step harness with timeline',
        'verus': {'cfgs': ['default'], 'fns': [r'^Display::(sleep|wake|is_sleeping|set_orientation|set_pixel|set_pixels|set_address_window|set_vertical_scroll_region|set_vertical_scroll_offset|set_tearing_effect|fill_solid)$',
                                               r'^builder::Builder::init$', r'^vf::lemma_ctrl_(push|px_pushed)$', r'^models::\w+::\w+::init$', r'^models::ili9\d\dx::init_common$']},
        'kani': {'files': ['root.rs', 'builder.rs'], 'groups': [{'quick': ['c13_step_preserves_sleep_invariant', 'c09_init_240x320'] + INIT_QUICK, 'thorough': INIT_REST, 'jobs': 12}]},
        'pairs': {r'sleep|wake': ['c13_step_preserves_sleep_invariant']},
        'functions': ['Display::{sleep,wake,is_sleeping}', 'every &mut Display method (invariant preservation)', 'Builder::init'],
        'assumptions': ['virtual time', 'Interface trait contract for generic transports'],
    },
    'C12': {
        'level_text': "Fault enumeration by symbolic index, complete on loop-free units: Kani fails the k-th low-level operation (k symbolic) of every Display call (sleep, wake, set_orientation, set_pixel, scroll region/offset, tearing effect, fill_solid) and of Builder::init for each built-in model (reset-pin and bus faults), and proves: Err is returned with the variant naming the source (InitError::ResetPin vs Interface; ParallelError::Wr/Bus/Dc on send_word; bus-cache cleared on a failed pin), exactly k+1 operations were issued (nothing after the failing one), no panic, driver state stays consistent and a following set_pixel is placed correctly. Verus proves for every Display method and every model init, generic in the transport, that Err implies the trace ends in the fault (faulted) and options / address mode / sleep flag are unchanged.",
        'level_note': "Fault positions inside the data-dependent loops of the two transports (send_pixels, send_repeated_pixel) are only covered by the bounded transport harnesses (C06/C07). Quick tier: 4 model inits; thorough: all 14.",
        'technique': 'Kani symbolic fault index on loop-free units + Verus Err-postconditions',
        'verus': {'cfgs': ['default'], 'fns': [r'^interface::impl&%\d+::send_(command|pixels|repeated_pixel)$', r'Rgb(565|666)::send_(pixels|repeated_pixel)$', r'^Display::(sleep|wake|set_orientation|set_pixel|set_pixels|set_address_window|set_vertical_scroll_region|set_vertical_scroll_offset|set_tearing_effect|fill_solid)$',
                                               r'^models::\w+::\w+::init$', r'^models::ili9\d\dx::init_common$', r'^builder::Builder::init$', r'^dcs::InterfaceExt::write_(command|raw)$']},
        'kani': {'files': ['root.rs', 'builder.rs', 'parallel.rs', 'spi.rs'], 'groups': [{'quick': ['c06_send_command_order_and_faults', 'c12_display_call_fault', 'c12_init_fault_st7789', 'c12_init_fault_ili9341rgb565', 'c12_init_fault_gc9107', 'c12_init_fault_ili9486rgb565',
                                                      'c07_send_word_latches_word', 'c07_set_value_step_8'],
                             'thorough': ['c12_init_fault_' + m for m in MODELS if m not in ('st7789', 'ili9341rgb565', 'gc9107', 'ili9486rgb565')] + ['c07_set_value_step_16'], 'jobs': 12}]},
        'functions': ['every Display method', 'Builder::init', 'Model::init x14', 'ParallelInterface::send_word', 'Generic8BitBus/Generic16BitBus::set_value'],
        'assumptions': ['faults inside transport loops: bounded only (see C06/C07)', 'SPI transport variants: see C06'],
    },
    'C05': {
        'level_text': "Complete proof over every colour value: Kani runs the real conversion functions through the real embedded-graphics-core code for all 65 536 Rgb565 and all 262 144 Rgb666 values (two bytes MSB first / one 16-bit word / three left-aligned bytes; decoding returns the colour), proves that a solid fill and a per-pixel stream encode identically on every bus width the type supports, and that the COLMOD codes derived from the colour types are 0x55 / 0x66; the per-model COLMOD announcement is part of the C11 harnesses. Verus proves the three send_repeated_pixel impls and fill_solid emit Px(count x enc(colour)) with enc the property's encoding.",
        'level_note': "The Verus contracts of the three conversion functions are external_body (e-g ToBytes/RgbColor are outside Verus' reach) and are exactly what the Kani harnesses discharge. rgb565_to_u16 uses native-endian bytes both ways: endianness-independent, checked on the host.",
        'technique': 'Kani full-domain harnesses through the real e-g code; Verus contracts on the pixel-format trait',
        'verus': {'cfgs': ['default'], 'fns': [r'Rgb(565|666)::send_pixels$', r'^interface::vf_(send|lemma)_mapped_\w+$', r'^interface::impl&%\d+::send_(pixels|repeated_pixel)$', r'Rgb565::send_repeated_pixel$', r'Rgb666::send_repeated_pixel$', r'^Display::fill_solid$', r'^dcs::set_pixel_format::']},
        'kani': {'files': ['interface.rs', 'builder.rs', 'parallel.rs'], 'groups': [{'quick': ['c05_rgb565_all_values', 'c05_rgb666_all_values', 'c05_fill_and_stream_encode_identically', 'c05_bpp_from_rgb_color', 'c07_is_same_contract'] + INIT_QUICK, 'thorough': INIT_REST, 'jobs': 12}]},
        'functions': ['rgb565_to_bytes', 'rgb565_to_u16', 'rgb666_to_bytes', 'InterfacePixelFormat impls x3', 'BitsPerPixel::from_rgb_color', 'PixelFormat::{with_all,as_u8}'],
        'assumptions': ['per-model COLMOD vs colour type: C11 harnesses (assertion tagged C11)'],
    },
    'C10': {
        'level_text': "Unbounded proof by representation invariant: Verus proves set_orientation (generic Model/transport) sends exactly one 0x36 whose byte is the MIPI encoding of (kept colour order, new orientation, kept refresh order), stores the new orientation and re-establishes Display::wf (madctl == encoding of options, window fits the framebuffer), on which every observer and drawing contract depends - so any history of calls is covered by induction. Kani cross-checks reported orientation/size/bounding box, equality with a freshly built state and placement of a following set_pixel for framebuffers 240x320 and 65535x65535, all options symbolic.",
        'level_note': "Assumes the Interface trait contract for third-party transports. 'Behaves as built with that orientation' is equality of the abstract state (options, madctl) that all other contracts depend on; drawing programs are covered through those contracts (C01-C04), not enumerated.",
        'technique': 'Verus representation invariant on Display + Kani complete harnesses with native replay',
        'verus': {'cfgs': ['default'],
                  'fns': [r'^builder::Builder::orientation$', r'^Display::(set_orientation|orientation|canary_wf)$', r'^graphics::Display::size$', r'^options::ModelOptions::display_size$',
                          r'^dcs::set_address_mode::SetAddressMode::(with_orientation|from|fill_params_buf|instruction)$',
                          r'^vf::lemma_(with_orientation_replaces|madctl_setters|field_bits|bits_u8)$']},
        'kani': {'files': ['root.rs'], 'groups': [{'quick': ['c10_set_orientation_240x320'], 'thorough': ['c10_set_orientation_max']}]},
        'pairs': {r'set_orientation|orientation$|size$': ['c10_set_orientation_240x320']},
        'functions': ['Display::set_orientation', 'Display::orientation', 'OriginDimensions::size', 'ModelOptions::display_size', 'SetAddressMode::with_orientation'],
        'assumptions': ['Interface trait contract (generic DI)', 'Kani instantiations: framebuffers 240x320 and 65535x65535; Verus: every Model'],
    },
    'C11': {
        'level_text': "Two layers. (1) Unbounded, generic in the transport: Verus verifies the real text of all 14 model init functions (and the two shared init_common helpers) against the Model trait contract init_post: whatever was sent before, after Ok the controller decoded from the bus trace is awake, switched on, holds MADCTL == MIPI encoding of the options (== the returned/cached value), an interface pixel format was announced, inversion as chosen, no memory write or pixel burst and no further reset happened, total delay >= 120 ms; a refusal is UnsupportedInterface with nothing sent; an Interface error ends the trace with the fault. (2) Complete per instantiation: for each of the 14 built-in model types x 3 interface kinds, Kani symbolically executes the real Builder::init and the model's init sequence (loop-free) with ALL options symbolic (colour order, orientation, inversion, refresh order, every size/offset init accepts, with and without reset pin) against a decoding Interface mock on a shared virtual timeline, and proves: awake, display on, last MADCTL == MIPI encoding of the options, COLMOD matches the colour type, inversion as chosen, no memory write / pixel call, >= 120 ms of delay after sleep-out before return; unsupported pairings return UnsupportedInterface with zero model commands; every pairing supported on the unchanged tree stays supported. Quick tier: 17 pairings (every model + the 3 refused pairings); thorough: all 42.",
        'level_note': "Per built-in model (finite set, enumerated; the driver checks that the harness list equals the model types found in src/models/*.rs). Third-party Model impls: not covered (trait contract assumed). Timing is virtual: sum of the arguments passed to the delay source. MIPI encoding oracle = support.rs::oracle_madctl (twin of vf::spec_madctl, proved equal to the code's byte in C14).",
        'technique': 'Kani loop-free symbolic execution of the real init code per model x kind, all options symbolic',
        'verus': {'cfgs': ['default'], 'fns': [r'^builder::Builder::(new|reset_pin|invert_colors|color_order|orientation|refresh_order|display_size|display_offset)$', r'^models::\w+::\w+::init$', r'^models::ili9\d\dx::init_common$', r'^builder::Builder::init$', r'^vf::lemma_ctrl_push$',
                                               r'^dcs::set_address_mode::SetAddressMode::from$', r'^dcs::set_invert_mode::', r'^dcs::set_pixel_format::SetPixelFormat::']},
        'kani': {'files': ['builder.rs'], 'groups': [{'quick': INIT_QUICK + REFUSE, 'thorough': INIT_REST, 'jobs': 12}]},
        'models_guard': True,
        'functions': ['Builder::init', 'Model::init for the 14 built-in models', 'ili934x::init_common', 'ili948x::init_common', 'SetAddressMode::from', 'InterfaceExt::{write_command,write_raw}'],
        'assumptions': ['virtual time: >=120 ms means the sum of delay arguments', 'external Model implementations are not covered',
                        'no-reset-pin path uses Builder<.., MockPin> with rst == None (same generic code; Kani 0.68 cannot codegen the uninhabited NoResetPin)'],
    },
    'C17': {
        'level_text': "Complete proof per instantiation (same harness family as C11, assertions tagged C17): through the real Builder::init for every built-in model x interface kind x all option sets, with a reset pin the very first low-level operation is rst low, >= 10 us of delay pass before rst high, the pin is written exactly twice and left high, no 0x01 is sent and no bus operation precedes the rising edge; without a pin the first bus operation is the parameterless 0x01, sent exactly once. Ordering across pin / delay / bus is observed on one shared operation counter.",
        'level_note': "Virtual time; pin/bus/delay mocks share one operation counter (cross-object order is decided here, not in Verus). No-pin path: rst == None with an inhabited pin type (Kani ICE on NoResetPin).",
        'technique': 'Kani loop-free symbolic execution of Builder::init with a shared operation timeline',
        'verus': {'cfgs': ['default'], 'fns': [r'^builder::Builder::(new|reset_pin)$', r'^builder::Builder::init$']},
        'kani': {'files': ['builder.rs'], 'groups': [{'quick': ['c12_init_fault_st7789', 'c12_init_fault_gc9107'] + INIT_QUICK, 'thorough': INIT_REST, 'jobs': 12}]},
        'models_guard': True,
        'functions': ['Builder::init', 'Model::init (14 built-in models)'],
        'assumptions': ['virtual time', 'no-reset-pin path uses an inhabited stand-in type for NoResetPin'],
    },
    'C14': {
        'level_text': 'Unbounded proof. Verus discharges, for the real text of SetAddressMode::{new,with_*,from,fill_params_buf} and MemoryMapping::from_orientation, postconditions equating the byte with a spec function written from the MIPI bit layout, plus bit-vector lemmas (disjoint masks, commutation, idempotence, bits 1-0 zero) over all 256 bytes. Kani re-proves the same statements on the compiled crate over all 256 x 2 x 8 x 4 inputs and all 6 setter orders (loop-free, complete) and supplies counterexamples.',
        'level_note': 'Trusted: Verus/Z3, Kani/CBMC, extractor rewrite table, derived Default (assume_specification, executed for real by the Kani harness). The meaning of the three orientation bits is tied to pixel placement by lemma vf::lemma_mapping_places_pixels (C01).',
        'technique': 'Verus contracts + bit_vector lemmas on extracted code; Kani full-domain harnesses',
        'verus': {'cfgs': ['default'],
                  'fns': [r'^dcs::set_address_mode::SetAddressMode::(new|with_color_order|with_orientation|with_refresh_order|from|fill_params_buf|instruction)$',
                          r'^vf::lemma_(bits_u8|field_bits|madctl_setters)$',
                          r'^options::orientation::MemoryMapping::from(_orientation)?$']},
        'kani': {'files': ['set_address_mode.rs'], 'groups': [{'quick': ['c14_madctl_all_inputs', 'c14_setters_any_start_any_order', 'c14_fill_params']}]},
        'pairs': {r'SetAddressMode::': ['c14_madctl_all_inputs', 'c14_setters_any_start_any_order', 'c14_fill_params'],
                  r'MemoryMapping::': ['c14_madctl_all_inputs']},
        'complete_pairs': [r'SetAddressMode::', r'MemoryMapping::'],
        'functions': ['SetAddressMode::{new,with_color_order,with_orientation,with_refresh_order,from,instruction,fill_params_buf}',
                      'MemoryMapping::{from_orientation,from}'],
        'assumptions': ['derived Default of SetAddressMode yields byte 0 (assume_specification; derive output is not under Verus proof, Kani harness c14_madctl_all_inputs executes the real derive)'],
    },
    'C15': {
        'level_text': 'Unbounded proof. Verus: try_from_degree (Ok iff multiple of 90, congruent mod 360, no overflow) for all i32; rotate/flip_* equal spec functions whose geometric meaning (pre-rotated clockwise / pre-mirrored image, for every panel size and point) and group laws are proved as lemmas, including that placement determines the orientation. Kani: same statements on the compiled code for all 2^32 angles and symbolic u16 sizes/points (loop-free, complete).',
        'level_note': 'Trusted: i32::rem_euclid specification in Verus (the Kani harness runs the real core implementation over all i32); Verus/Z3, Kani/CBMC, extractor.',
        'technique': 'Verus contracts + geometry lemmas; Kani full-domain harnesses',
        'verus': {'cfgs': ['default'],
                  'fns': [r'^options::orientation::Rotation::(degree|try_from_degree|rotate|is_horizontal|is_vertical)$',
                          r'^options::orientation::Orientation::(new|rotate|flip_horizontal|flip_vertical|flip_horizontal_absolute|flip_vertical_absolute)$',
                          r'^vf::lemma_(rotate_geometry|flip_h_geometry|flip_v_geometry|orientation_determined|orientation_group|rot_add_table|rot_add_assoc)$']},
        'kani': {'files': ['orientation.rs'], 'groups': [{'quick': ['c15_try_from_degree_all_i32', 'c15_rotate_flip_geometry', 'c15_group_laws']}]},
        'pairs': {r'Rotation::': ['c15_try_from_degree_all_i32', 'c15_group_laws'], r'Orientation::': ['c15_rotate_flip_geometry', 'c15_group_laws']},
        'complete_pairs': [r'Rotation::', r'Orientation::'],
        'functions': ['Rotation::{degree,try_from_degree,rotate,is_horizontal,is_vertical}', 'Orientation::{new,rotate,flip_horizontal,flip_vertical}'],
        'assumptions': ['i32::rem_euclid(a, b>0) == a mod b (assume_specification; Kani harness c15_try_from_degree_all_i32 runs the real core implementation over all 2^32 angles)'],
    },
    'C16': {
        'level_text': 'Unbounded proof, generic in the Model and the transport: Verus proves set_vertical_scroll_region sends exactly one 0x33 with big-endian tfa,vsa,bfa summing to FRAMEBUFFER_SIZE.1, passes top/bottom through when they fit, and that no arithmetic operation can overflow; set_vertical_scroll_offset sends 0x37 + be16(offset). Kani proves the same through a recording Interface for framebuffer heights 1,160,320,480,536,65535 over all u16 x u16 and yields replayable counterexamples (found the u16 overflow fixed in /repo).',
        'level_note': 'Assumes the Interface trait contract for third-party transports (one Cmd event per send_command); u16::to_be_bytes wrapper contract (re-checked by Kani).',
        'technique': 'Verus contracts generic in M/DI; Kani complete harnesses per framebuffer height; native replay',
        'verus': {'cfgs': ['default'],
                  'fns': [r'^Display::set_vertical_scroll_(region|offset)$', r'^dcs::set_scroll_(area|start)::',
                          r'^dcs::InterfaceExt::write_(command|raw)$', r'^vf::u16_to_be_bytes$']},
        'kani': {'files': ['root.rs'], 'groups': [{'quick': ['c16_region_h1', 'c16_region_h320', 'c16_region_h65535', 'c16_offset'],
                             'thorough': ['c16_region_h160', 'c16_region_h480', 'c16_region_h536']}]},
        'pairs': {r'set_vertical_scroll_region': ['c16_region_h1', 'c16_region_h320', 'c16_region_h65535'],
                  r'set_vertical_scroll_offset': ['c16_offset'], r'set_scroll_': ['c16_region_h320', 'c16_offset']},
        'functions': ['Display::set_vertical_scroll_region', 'Display::set_vertical_scroll_offset', 'SetScrollArea::{new,instruction,fill_params_buf}',
                      'SetScrollStart::{new,instruction,fill_params_buf}', 'InterfaceExt::{write_command,write_raw}'],
        'assumptions': ['generic DI: the Interface trait contract (send_command appends exactly one Cmd event or faults) is assumed for third-party transports',
                        'u16::to_be_bytes == [x>>8, x&0xff] (external_body wrapper vf::u16_to_be_bytes; re-checked by Kani harness c18_be16_all_u16)',
                        'Kani instantiations: framebuffer heights {1,160,320,480,536,65535}; Verus: every Model'],
    },
    'C18': {
        'level_text': 'Unbounded proof. A trait-level contract on DcsCommand (instruction == MIPI opcode; fill_params_buf writes exactly params(), returns its length, leaves the rest of the buffer unchanged) is discharged by Verus for all 18 command types (the 10 macro-generated ones are verified inside the macro and pinned to the opcode table by a lemma); write_command/write_raw append exactly Cmd(opcode, params). Kani re-proves it on the compiled crate over all u16^2 / u16^3 / enum values and buffer contents.',
        'level_note': 'Trusted: vstd slice specs (copy_from_slice, range indexing); u16::to_be_bytes wrapper (Kani: all 65536 values); Interface trait contract for generic transports.',
        'technique': 'Verus trait contracts on extracted code incl. macro output; Kani full-domain harnesses',
        'verus': {'cfgs': ['default'], 'fns': DCS_FNS},
        'kani': {'files': ['dcs.rs'], 'groups': [{'quick': ['c18_be16_all_u16', 'c18_caset_raset_all', 'c18_scroll_all', 'c18_enums_all', 'c18_write_raw_passthrough']}]},
        'pairs': {r'^dcs::': ['c18_caset_raset_all', 'c18_scroll_all', 'c18_enums_all', 'c18_write_raw_passthrough'], r'u16_to_be_bytes': ['c18_be16_all_u16']},
        'complete_pairs': [r'^dcs::set_'],
        'functions': ['every DcsCommand impl: instruction, fill_params_buf (8 parameterised types + 10 macro-generated)', 'InterfaceExt::{write_command,write_raw}'],
        'assumptions': ['u16::to_be_bytes contract (external_body wrapper) - discharged by Kani harness c18_be16_all_u16 over all 65536 values',
                        'copy_from_slice / slice range indexing: vstd specifications'],
    },
}


# ---- dependency-contract audit (contracts/kani/deps.rs): the contracts that prelude.rs ASSUMES about core, embedded-graphics-core
# and heapless are asserted on the real dependency code.  Each property selects the audit harnesses of the assumed contracts its
# Verus proof uses; they are appended to its first default-configuration Kani group (one cargo-kani invocation).
DEP_BOUNDS = {
    'dep_once_array_repeat': 'iter::once and [T;3] by-value iterator: complete; (0..count).map(const): count <= 4',
    'dep_iterator_adapters': 'core Map / Filter / Take / nth through &mut on arbitrary fused streams of at most 4 items',
    'dep_chunks_exact_mut': 'slice length <= 7, chunk size 1..=3',
    'dep_heapless_vec': 'heapless::Vec<u16, 4> (the code is generic in the capacity N)',
}
DEP_GEOM = ['dep_rect_intersection', 'dep_rect_bottom_right_contains', 'dep_size_eq_bounding_box']
DEP_CORE = ['dep_core_integer_helpers']
DEP_ITER = ['dep_once_array_repeat', 'dep_iterator_adapters']
DEP_USES = {
    'C01': {'quick': DEP_GEOM + ['dep_once_array_repeat']},
    'C02': {'quick': DEP_GEOM + DEP_ITER + ['dep_heapless_vec']},
    'C03': {'quick': DEP_ITER + ['dep_heapless_vec']},
    'C04': {'quick': DEP_GEOM + DEP_CORE + DEP_ITER},
    'C05': {'quick': DEP_ITER},
    'C06': {'quick': DEP_CORE + ['dep_chunks_exact_mut']},
    'C07': {'quick': ['dep_once_array_repeat']},
    'C08': {'quick': DEP_GEOM + ['dep_once_array_repeat']},
    'C15': {'thorough': ['dep_rem_euclid_360']},
    'C18': {'quick': DEP_CORE},
    'C20': {'quick': DEP_GEOM + ['dep_heapless_vec', 'dep_chunks_exact_mut']},
}
DEP_TEXT = ('assumed dependency contracts re-checked by Kani on the real dependency code (contracts/kani/deps.rs; complete where loop-free, '
            'bounded otherwise; the correspondence of the two formulas is by inspection): ')


def _add_deps():
    for pid, use in DEP_USES.items():
        P = PROPS[pid]
        K = P.setdefault('kani', {'files': [], 'groups': []})
        if 'deps.rs' not in K['files']:
            K['files'] = list(K['files']) + ['deps.rs']
        tgt = None
        for g in K['groups']:
            if not g.get('no_default') and not g.get('ptr16') and g.get('quick'):
                tgt = g
                break
        if tgt is None:
            for g in K['groups']:
                if not g.get('ptr16') and g.get('quick'):
                    tgt = g   # the audited dependency code does not depend on the crate's features
                    break
        if tgt is None:
            tgt = {'quick': [], 'jobs': 8}
            K['groups'].append(tgt)
        for tier in ('quick', 'thorough'):
            for h in use.get(tier, []):
                if h not in tgt.get('quick', []) and h not in tgt.get('thorough', []):
                    tgt.setdefault(tier, [])
                    tgt[tier] = list(tgt[tier]) + [h]
                if h in DEP_BOUNDS:
                    tgt.setdefault('bounded', {})
                    tgt['bounded'] = dict(tgt['bounded'], **{h: DEP_BOUNDS[h]})
        tgt.setdefault('jobs', 8)
        hs = use.get('quick', []) + use.get('thorough', [])
        P['assumptions'] = list(P.get('assumptions', [])) + [DEP_TEXT + ', '.join(hs)]


_add_deps()


# ---- harnesses added after the third round of seeded changes (state carried between calls, three-word pixels, transports under C01)
SEQ_SPI = {'c06_call_sequence_bounded': 'three calls on one SpiInterface (fill; fill or stream of <= 2 pixels with a loose size_hint and one arbitrary fault; fill), buffer 2..=5 bytes, N = 2, counts <= 3'}
SEQ_PAR = {'c07_send_pixels_3word_bounded': '2 pixels x 3 words on the 8-bit bus', 'c07_call_sequence_bounded': 'two calls on one ParallelInterface, one two-word pixel each'}
EXTRA = {
    'C06': {'files': ['spi.rs'], 'quick': SEQ_SPI},
    'C20': {'files': ['spi.rs', 'root.rs'], 'quick': dict(SEQ_SPI, c03_batch_vertical_pair_colours='one concrete geometry (3,5),(3,6) on the 240x320 panel, colours symbolic, batch mode'), 'after': 'c06_repeated_pixel_bounded'},
    'C05': {'files': ['spi.rs', 'parallel.rs'], 'quick': dict(SEQ_SPI, **SEQ_PAR)},
    'C07': {'files': ['parallel.rs'], 'quick': SEQ_PAR, 'thorough': {'c07_send_repeated_pixel_3word_bounded': 'three-word pixel, count <= 2'}},
    'C11': {'files': ['builder.rs'], 'quick': {'c11_builder_call_order': None}},
    'C09': {'files': ['builder.rs'], 'quick': {'c11_builder_call_order': None}},
    'C17': {'files': ['builder.rs'], 'quick': {'c11_builder_call_order': None}},
    'C08': {'files': ['batch.rs'], 'quick': {'c03_block_capacity_rows': 'one concrete input: three stacked rows of width 40 (the third no longer fits the 100-colour block)'}},
    'C03': {'files': ['batch.rs', 'root.rs'], 'quick': {'c03_block_capacity_rows': 'one concrete input: three stacked rows of width 40 (the third no longer fits the 100-colour block)',
                                                       'c03_batch_vertical_pair_colours': 'one concrete geometry (3,5),(3,6) on the 240x320 panel, colours symbolic, batch mode'}},
    # C01 quantifies over the transports: what the controller decodes is what the pins / the SPI wire carry (C06/C07 obligations)
    'C01': {'files': ['spi.rs', 'parallel.rs'], 'tags': ['C06', 'C07'],
            'quick': {'c07_set_value_step_8': None, 'c07_set_value_step_16': None, 'c07_send_word_latches_word': None, 'c06_send_command_order_and_faults': None}},
}


def _add_extra():
    for pid, use in EXTRA.items():
        P = PROPS[pid]
        K = P['kani']
        K['files'] = list(K['files']) + [f for f in use.get('files', []) if f not in K['files']]
        tgt = None
        for g in K['groups']:
            if not g.get('no_default') and not g.get('ptr16') and g.get('quick') and (not use.get('after') or use['after'] in g['quick']):
                tgt = g
                break
        for tier in ('quick', 'thorough'):
            for h, bound in use.get(tier, {}).items():
                if h in tgt.get('quick', []) or h in tgt.get('thorough', []):
                    continue
                tgt[tier] = list(tgt.get(tier, [])) + [h]
                if bound:
                    tgt['bounded'] = dict(tgt.get('bounded', {}), **{h: bound})
        tgt.setdefault('jobs', 8)
        if use.get('tags'):
            P['tags'] = [pid] + use['tags']


_add_extra()
