"""Per-property configuration: which obligations decide which property.

verus.fns    regexes over the function names Verus reports for the extracted crate
kani.groups  harness groups (one cargo-kani invocation each); 'quick' always run, 'thorough' added in the thorough tier;
             'bounded': {harness: bound text} marks bounded stand-ins (reported separately, never counted as proved)
pairs        Verus function regex -> Kani harnesses used to look for a concrete failing input
complete_pairs  Verus functions whose Kani pair is complete over the same domain (no generic parameter)
"""

COMMON_TRUSTED = [
    'Verus 0.2026.09.13 (VIR/AIR encoding, &mut/prophecy encoding), Z3 as shipped with Verus, vstd specifications',
    'Kani 0.68.0 / CBMC 6.11.0 / CaDiCaL, rustc front ends of both tool chains',
    'extractor tools/extract.py: module inlining + the drop/rewrite table of DESIGN.md 2.1 (applications counted in verus_runs.*.rewrite_counts)',
    'machine arithmetic: Verus checks Rust integer semantics with usize = 64 bit; Kani is bit-precise on the x86_64 host',
]

DCS_FNS = [r'^dcs::set_\w+::\w+::(instruction|fill_params_buf|new|with_all|as_u8)$', r'^dcs::\w+::(instruction|fill_params_buf)$',
           r'^dcs::InterfaceExt::write_(command|raw)$', r'^dcs::lemma_basic_opcodes$',
           r'^dcs::set_\w+::lemma_\w+_params$', r'^dcs::set_\w+::\w+::lemma_params_len$', r'^vf::u16_to_be_bytes$']

PROPS = {
    'C14': {
        'verus': {'cfgs': ['default'],
                  'fns': [r'^dcs::set_address_mode::SetAddressMode::(new|with_color_order|with_orientation|with_refresh_order|from|fill_params_buf|instruction)$',
                          r'^vf::lemma_(bits_u8|field_bits|madctl_setters)$',
                          r'^options::orientation::MemoryMapping::from(_orientation)?$']},
        'kani': {'groups': [{'quick': ['c14_madctl_all_inputs', 'c14_setters_any_start_any_order', 'c14_fill_params']}]},
        'pairs': {r'SetAddressMode::': ['c14_madctl_all_inputs', 'c14_setters_any_start_any_order', 'c14_fill_params'],
                  r'MemoryMapping::': ['c14_madctl_all_inputs']},
        'complete_pairs': [r'SetAddressMode::', r'MemoryMapping::'],
        'functions': ['SetAddressMode::{new,with_color_order,with_orientation,with_refresh_order,from,instruction,fill_params_buf}',
                      'MemoryMapping::{from_orientation,from}'],
        'assumptions': ['derived Default of SetAddressMode yields byte 0 (assume_specification; derive output is not under Verus proof, Kani harness c14_madctl_all_inputs executes the real derive)'],
    },
    'C15': {
        'verus': {'cfgs': ['default'],
                  'fns': [r'^options::orientation::Rotation::(degree|try_from_degree|rotate|is_horizontal|is_vertical)$',
                          r'^options::orientation::Orientation::(new|rotate|flip_horizontal|flip_vertical|flip_horizontal_absolute|flip_vertical_absolute)$',
                          r'^vf::lemma_(rotate_geometry|flip_h_geometry|flip_v_geometry|orientation_determined|orientation_group|rot_add_table|rot_add_assoc)$']},
        'kani': {'groups': [{'quick': ['c15_try_from_degree_all_i32', 'c15_rotate_flip_geometry', 'c15_group_laws']}]},
        'pairs': {r'Rotation::': ['c15_try_from_degree_all_i32', 'c15_group_laws'], r'Orientation::': ['c15_rotate_flip_geometry', 'c15_group_laws']},
        'complete_pairs': [r'Rotation::', r'Orientation::'],
        'functions': ['Rotation::{degree,try_from_degree,rotate,is_horizontal,is_vertical}', 'Orientation::{new,rotate,flip_horizontal,flip_vertical}'],
        'assumptions': ['i32::rem_euclid(a, b>0) == a mod b (assume_specification; Kani harness c15_try_from_degree_all_i32 runs the real core implementation over all 2^32 angles)'],
    },
    'C16': {
        'verus': {'cfgs': ['default'],
                  'fns': [r'^Display::set_vertical_scroll_(region|offset)$', r'^dcs::set_scroll_(area|start)::',
                          r'^dcs::InterfaceExt::write_(command|raw)$', r'^vf::u16_to_be_bytes$']},
        'kani': {'groups': [{'quick': ['c16_region_h1', 'c16_region_h320', 'c16_region_h65535', 'c16_offset'],
                             'thorough': ['c16_region_h160', 'c16_region_h480', 'c16_region_h536']}]},
        'pairs': {r'set_vertical_scroll_region': ['c16_region_h1', 'c16_region_h320', 'c16_region_h65535'],
                  r'set_vertical_scroll_offset': ['c16_offset'], r'set_scroll_': ['c16_region_h320', 'c16_offset']},
        'functions': ['Display::set_vertical_scroll_region', 'Display::set_vertical_scroll_offset', 'SetScrollArea::{new,instruction,fill_params_buf}',
                      'SetScrollStart::{new,instruction,fill_params_buf}', 'InterfaceExt::{write_command,write_raw}'],
        'assumptions': ['generic DI: the Interface trait contract (send_command appends exactly one Cmd event or faults) is assumed for third-party transports',
                        'u16::to_be_bytes == [x>>8, x&0xff] (external_body wrapper vf::u16_to_be_bytes; re-checked by Kani harness c18_be16_all_u16)',
                        'Kani instantiations: framebuffer heights {1,160,320,480,536,65535}; Verus: every Model'],
    },
    'C18': {
        'verus': {'cfgs': ['default'], 'fns': DCS_FNS},
        'kani': {'groups': [{'quick': ['c18_be16_all_u16', 'c18_caset_raset_all', 'c18_scroll_all', 'c18_enums_all', 'c18_write_raw_passthrough']}]},
        'pairs': {r'^dcs::': ['c18_caset_raset_all', 'c18_scroll_all', 'c18_enums_all', 'c18_write_raw_passthrough'], r'u16_to_be_bytes': ['c18_be16_all_u16']},
        'complete_pairs': [r'^dcs::set_'],
        'functions': ['every DcsCommand impl: instruction, fill_params_buf (8 parameterised types + 10 macro-generated)', 'InterfaceExt::{write_command,write_raw}'],
        'assumptions': ['u16::to_be_bytes contract (external_body wrapper) - discharged by Kani harness c18_be16_all_u16 over all 65536 values',
                        'copy_from_slice / slice range indexing: vstd specifications'],
    },
}
