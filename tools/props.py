"""Per-property configuration: which obligations decide which property.

verus.fns    regexes over the function names Verus reports for the extracted crate
kani.groups  harness groups (one cargo-kani invocation each); 'quick' always run, 'thorough' added in the thorough tier;
             'bounded': {harness: bound text} marks bounded stand-ins (reported separately, never counted as proved)
pairs        Verus function regex -> Kani harnesses used to look for a concrete failing input
complete_pairs  Verus functions whose Kani pair is complete over the same domain (no generic parameter)
"""

COMMON_TRUSTED = [
    'Verus 0.2026.09.13 (VIR/AIR encoding, &mut/prophecy encoding), Z3 as shipped with Verus, vstd specifications',
    'Kani 0.68.0 / CBMC 6.11.0 / CaDiCaL, rustc front ends of both tool chains',
    'extractor tools/extract.py: module inlining + the drop/rewrite table of DESIGN.md 2.1 (applications counted in verus_runs.*.rewrite_counts)',
    'machine arithmetic: Verus checks Rust integer semantics with usize = 64 bit; Kani is bit-precise on the x86_64 host',
]

DCS_FNS = [r'^dcs::set_\w+::\w+::(instruction|fill_params_buf|new|with_all|as_u8)$', r'^dcs::\w+::(instruction|fill_params_buf)$',
           r'^dcs::InterfaceExt::write_(command|raw)$', r'^dcs::lemma_basic_opcodes$',
           r'^dcs::set_\w+::lemma_\w+_params$', r'^dcs::set_\w+::\w+::lemma_params_len$', r'^vf::u16_to_be_bytes$']

NOT_APPLICABLE = {}

MODELS = ['gc9107', 'gc9a01', 'ili9341rgb565', 'ili9341rgb666', 'ili9342crgb565', 'ili9342crgb666', 'ili9486rgb565', 'ili9486rgb666', 'ili9488rgb565', 'ili9488rgb666', 'rm67162', 'st7735s', 'st7789', 'st7796']
UNSUPPORTED = {('gc9107', 2), ('rm67162', 2), ('ili9486rgb565', 0)}
INIT_ALL = ['init_%s_k%d' % (m, k) for m in MODELS for k in (0, 1, 2)]
# quick: every model on its first supported kind + the three refused pairings
INIT_QUICK = ['init_%s_k%d' % (m, 1 if m == 'ili9486rgb565' else 0) for m in MODELS] + ['init_gc9107_k2', 'init_rm67162_k2', 'init_ili9486rgb565_k0']
INIT_REST = [h for h in INIT_ALL if h not in INIT_QUICK]
REFUSE = ['refuse_gc9107_k2', 'refuse_rm67162_k2', 'refuse_ili9486rgb565_k0']


PROPS = {
    'C10': {
        'level_text': "Unbounded proof by representation invariant: Verus proves set_orientation (generic Model/transport) sends exactly one 0x36 whose byte is the MIPI encoding of (kept colour order, new orientation, kept refresh order), stores the new orientation and re-establishes Display::wf (madctl == encoding of options, window fits the framebuffer), on which every observer and drawing contract depends - so any history of calls is covered by induction. Kani cross-checks reported orientation/size/bounding box, equality with a freshly built state and placement of a following set_pixel for framebuffers 240x320 and 65535x65535, all options symbolic.",
        'level_note': "Assumes the Interface trait contract for third-party transports. 'Behaves as built with that orientation' is equality of the abstract state (options, madctl) that all other contracts depend on; drawing programs are covered through those contracts (C01-C04), not enumerated.",
        'technique': 'Verus representation invariant on Display + Kani complete harnesses with native replay',
        'verus': {'cfgs': ['default'],
                  'fns': [r'^Display::(set_orientation|orientation|canary_wf)$', r'^graphics::Display::size$', r'^options::ModelOptions::display_size$',
                          r'^dcs::set_address_mode::SetAddressMode::(with_orientation|from|fill_params_buf|instruction)$',
                          r'^vf::lemma_(with_orientation_replaces|madctl_setters|field_bits|bits_u8)$']},
        'kani': {'groups': [{'quick': ['c10_set_orientation_240x320'], 'thorough': ['c10_set_orientation_max']}]},
        'pairs': {r'set_orientation|orientation$|size$': ['c10_set_orientation_240x320']},
        'functions': ['Display::set_orientation', 'Display::orientation', 'OriginDimensions::size', 'ModelOptions::display_size', 'SetAddressMode::with_orientation'],
        'assumptions': ['Interface trait contract (generic DI)', 'Kani instantiations: framebuffers 240x320 and 65535x65535; Verus: every Model'],
    },
    'C11': {
        'level_text': "Complete proof per instantiation: for each of the 14 built-in model types x 3 interface kinds, Kani symbolically executes the real Builder::init and the model's init sequence (loop-free) with ALL options symbolic (colour order, orientation, inversion, refresh order, every size/offset init accepts, with and without reset pin) against a decoding Interface mock on a shared virtual timeline, and proves: awake, display on, last MADCTL == MIPI encoding of the options, COLMOD matches the colour type, inversion as chosen, no memory write / pixel call, >= 120 ms of delay after sleep-out before return; unsupported pairings return UnsupportedInterface with zero model commands; every pairing supported on the unchanged tree stays supported. Quick tier: 17 pairings (every model + the 3 refused pairings); thorough: all 42.",
        'level_note': "Per built-in model (finite set, enumerated; the driver checks that the harness list equals the model types found in src/models/*.rs). Third-party Model impls: not covered (trait contract assumed). Timing is virtual: sum of the arguments passed to the delay source. MIPI encoding oracle = support.rs::oracle_madctl (twin of vf::spec_madctl, proved equal to the code's byte in C14).",
        'technique': 'Kani loop-free symbolic execution of the real init code per model x kind, all options symbolic',
        'kani': {'groups': [{'quick': INIT_QUICK + REFUSE, 'thorough': INIT_REST, 'jobs': 12}]},
        'models_guard': True,
        'functions': ['Builder::init', 'Model::init for the 14 built-in models', 'ili934x::init_common', 'ili948x::init_common', 'SetAddressMode::from', 'InterfaceExt::{write_command,write_raw}'],
        'assumptions': ['virtual time: >=120 ms means the sum of delay arguments', 'external Model implementations are not covered',
                        'no-reset-pin path uses Builder<.., MockPin> with rst == None (same generic code; Kani 0.68 cannot codegen the uninhabited NoResetPin)'],
    },
    'C17': {
        'level_text': "Complete proof per instantiation (same harness family as C11, assertions tagged C17): through the real Builder::init for every built-in model x interface kind x all option sets, with a reset pin the very first low-level operation is rst low, >= 10 us of delay pass before rst high, the pin is written exactly twice and left high, no 0x01 is sent and no bus operation precedes the rising edge; without a pin the first bus operation is the parameterless 0x01, sent exactly once. Ordering across pin / delay / bus is observed on one shared operation counter.",
        'level_note': "Virtual time; pin/bus/delay mocks share one operation counter (cross-object order is decided here, not in Verus). No-pin path: rst == None with an inhabited pin type (Kani ICE on NoResetPin).",
        'technique': 'Kani loop-free symbolic execution of Builder::init with a shared operation timeline',
        'kani': {'groups': [{'quick': INIT_QUICK, 'thorough': INIT_REST, 'jobs': 12}]},
        'models_guard': True,
        'functions': ['Builder::init', 'Model::init (14 built-in models)'],
        'assumptions': ['virtual time', 'no-reset-pin path uses an inhabited stand-in type for NoResetPin'],
    },
    'C14': {
        'level_text': 'Unbounded proof. Verus discharges, for the real text of SetAddressMode::{new,with_*,from,fill_params_buf} and MemoryMapping::from_orientation, postconditions equating the byte with a spec function written from the MIPI bit layout, plus bit-vector lemmas (disjoint masks, commutation, idempotence, bits 1-0 zero) over all 256 bytes. Kani re-proves the same statements on the compiled crate over all 256 x 2 x 8 x 4 inputs and all 6 setter orders (loop-free, complete) and supplies counterexamples.',
        'level_note': 'Trusted: Verus/Z3, Kani/CBMC, extractor rewrite table, derived Default (assume_specification, executed for real by the Kani harness). The meaning of the three orientation bits is tied to pixel placement by lemma vf::lemma_mapping_places_pixels (C01).',
        'technique': 'Verus contracts + bit_vector lemmas on extracted code; Kani full-domain harnesses',
        'verus': {'cfgs': ['default'],
                  'fns': [r'^dcs::set_address_mode::SetAddressMode::(new|with_color_order|with_orientation|with_refresh_order|from|fill_params_buf|instruction)$',
                          r'^vf::lemma_(bits_u8|field_bits|madctl_setters)$',
                          r'^options::orientation::MemoryMapping::from(_orientation)?$']},
        'kani': {'groups': [{'quick': ['c14_madctl_all_inputs', 'c14_setters_any_start_any_order', 'c14_fill_params']}]},
        'pairs': {r'SetAddressMode::': ['c14_madctl_all_inputs', 'c14_setters_any_start_any_order', 'c14_fill_params'],
                  r'MemoryMapping::': ['c14_madctl_all_inputs']},
        'complete_pairs': [r'SetAddressMode::', r'MemoryMapping::'],
        'functions': ['SetAddressMode::{new,with_color_order,with_orientation,with_refresh_order,from,instruction,fill_params_buf}',
                      'MemoryMapping::{from_orientation,from}'],
        'assumptions': ['derived Default of SetAddressMode yields byte 0 (assume_specification; derive output is not under Verus proof, Kani harness c14_madctl_all_inputs executes the real derive)'],
    },
    'C15': {
        'level_text': 'Unbounded proof. Verus: try_from_degree (Ok iff multiple of 90, congruent mod 360, no overflow) for all i32; rotate/flip_* equal spec functions whose geometric meaning (pre-rotated clockwise / pre-mirrored image, for every panel size and point) and group laws are proved as lemmas, including that placement determines the orientation. Kani: same statements on the compiled code for all 2^32 angles and symbolic u16 sizes/points (loop-free, complete).',
        'level_note': 'Trusted: i32::rem_euclid specification in Verus (the Kani harness runs the real core implementation over all i32); Verus/Z3, Kani/CBMC, extractor.',
        'technique': 'Verus contracts + geometry lemmas; Kani full-domain harnesses',
        'verus': {'cfgs': ['default'],
                  'fns': [r'^options::orientation::Rotation::(degree|try_from_degree|rotate|is_horizontal|is_vertical)$',
                          r'^options::orientation::Orientation::(new|rotate|flip_horizontal|flip_vertical|flip_horizontal_absolute|flip_vertical_absolute)$',
                          r'^vf::lemma_(rotate_geometry|flip_h_geometry|flip_v_geometry|orientation_determined|orientation_group|rot_add_table|rot_add_assoc)$']},
        'kani': {'groups': [{'quick': ['c15_try_from_degree_all_i32', 'c15_rotate_flip_geometry', 'c15_group_laws']}]},
        'pairs': {r'Rotation::': ['c15_try_from_degree_all_i32', 'c15_group_laws'], r'Orientation::': ['c15_rotate_flip_geometry', 'c15_group_laws']},
        'complete_pairs': [r'Rotation::', r'Orientation::'],
        'functions': ['Rotation::{degree,try_from_degree,rotate,is_horizontal,is_vertical}', 'Orientation::{new,rotate,flip_horizontal,flip_vertical}'],
        'assumptions': ['i32::rem_euclid(a, b>0) == a mod b (assume_specification; Kani harness c15_try_from_degree_all_i32 runs the real core implementation over all 2^32 angles)'],
    },
    'C16': {
        'level_text': 'Unbounded proof, generic in the Model and the transport: Verus proves set_vertical_scroll_region sends exactly one 0x33 with big-endian tfa,vsa,bfa summing to FRAMEBUFFER_SIZE.1, passes top/bottom through when they fit, and that no arithmetic operation can overflow; set_vertical_scroll_offset sends 0x37 + be16(offset). Kani proves the same through a recording Interface for framebuffer heights 1,160,320,480,536,65535 over all u16 x u16 and yields replayable counterexamples (found the u16 overflow fixed in /repo).',
        'level_note': 'Assumes the Interface trait contract for third-party transports (one Cmd event per send_command); u16::to_be_bytes wrapper contract (re-checked by Kani).',
        'technique': 'Verus contracts generic in M/DI; Kani complete harnesses per framebuffer height; native replay',
        'verus': {'cfgs': ['default'],
                  'fns': [r'^Display::set_vertical_scroll_(region|offset)$', r'^dcs::set_scroll_(area|start)::',
                          r'^dcs::InterfaceExt::write_(command|raw)$', r'^vf::u16_to_be_bytes$']},
        'kani': {'groups': [{'quick': ['c16_region_h1', 'c16_region_h320', 'c16_region_h65535', 'c16_offset'],
                             'thorough': ['c16_region_h160', 'c16_region_h480', 'c16_region_h536']}]},
        'pairs': {r'set_vertical_scroll_region': ['c16_region_h1', 'c16_region_h320', 'c16_region_h65535'],
                  r'set_vertical_scroll_offset': ['c16_offset'], r'set_scroll_': ['c16_region_h320', 'c16_offset']},
        'functions': ['Display::set_vertical_scroll_region', 'Display::set_vertical_scroll_offset', 'SetScrollArea::{new,instruction,fill_params_buf}',
                      'SetScrollStart::{new,instruction,fill_params_buf}', 'InterfaceExt::{write_command,write_raw}'],
        'assumptions': ['generic DI: the Interface trait contract (send_command appends exactly one Cmd event or faults) is assumed for third-party transports',
                        'u16::to_be_bytes == [x>>8, x&0xff] (external_body wrapper vf::u16_to_be_bytes; re-checked by Kani harness c18_be16_all_u16)',
                        'Kani instantiations: framebuffer heights {1,160,320,480,536,65535}; Verus: every Model'],
    },
    'C18': {
        'level_text': 'Unbounded proof. A trait-level contract on DcsCommand (instruction == MIPI opcode; fill_params_buf writes exactly params(), returns its length, leaves the rest of the buffer unchanged) is discharged by Verus for all 18 command types (the 10 macro-generated ones are verified inside the macro and pinned to the opcode table by a lemma); write_command/write_raw append exactly Cmd(opcode, params). Kani re-proves it on the compiled crate over all u16^2 / u16^3 / enum values and buffer contents.',
        'level_note': 'Trusted: vstd slice specs (copy_from_slice, range indexing); u16::to_be_bytes wrapper (Kani: all 65536 values); Interface trait contract for generic transports.',
        'technique': 'Verus trait contracts on extracted code incl. macro output; Kani full-domain harnesses',
        'verus': {'cfgs': ['default'], 'fns': DCS_FNS},
        'kani': {'groups': [{'quick': ['c18_be16_all_u16', 'c18_caset_raset_all', 'c18_scroll_all', 'c18_enums_all', 'c18_write_raw_passthrough']}]},
        'pairs': {r'^dcs::': ['c18_caset_raset_all', 'c18_scroll_all', 'c18_enums_all', 'c18_write_raw_passthrough'], r'u16_to_be_bytes': ['c18_be16_all_u16']},
        'complete_pairs': [r'^dcs::set_'],
        'functions': ['every DcsCommand impl: instruction, fill_params_buf (8 parameterised types + 10 macro-generated)', 'InterfaceExt::{write_command,write_raw}'],
        'assumptions': ['u16::to_be_bytes contract (external_body wrapper) - discharged by Kani harness c18_be16_all_u16 over all 65536 values',
                        'copy_from_slice / slice range indexing: vstd specifications'],
    },
}
