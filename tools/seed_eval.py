#!/usr/bin/env python3
"""Confirm a seeded change (compiles, existing tests pass, demo fails with / passes without) in a scratch
worktree and run the registered checks against it in /repo (applied and reverted immediately).

  seed_eval.py <PROP> <patch.diff> <demo.rs> [--checks C01,C08] [--features "--no-default-features"]
Prints a JSON summary line.
"""
import json, os, re, subprocess, sys, shutil, tempfile

def sh(cmd, cwd=None, timeout=3600, env=None):
    r = subprocess.run(cmd, shell=True, cwd=cwd, capture_output=True, text=True, timeout=timeout, env=env)
    return r.returncode, r.stdout + r.stderr

def main():
    prop, patch, demo = sys.argv[1:4]
    checks = [prop]
    extra = ''
    for i, a in enumerate(sys.argv):
        if a == '--checks':
            checks = sys.argv[i + 1].split(',')
        if a == '--features':
            extra = sys.argv[i + 1]
    patch = os.path.abspath(patch); demo = os.path.abspath(demo)
    res = {'prop': prop, 'patch': patch}
    wt = tempfile.mkdtemp(prefix='seedwt.', dir='/tmp')
    os.rmdir(wt)
    rc, out = sh('git -C /repo worktree add -q --detach %s HEAD' % wt)
    try:
        shutil.copy('/repo/Cargo.lock', os.path.join(wt, 'Cargo.lock'))
        m = re.search(r'place at (\S+)', open(demo).read())
        dest = m.group(1) if m else 'tests/seed_demo.rs'
        tname = os.path.splitext(os.path.basename(dest))[0]
        os.makedirs(os.path.dirname(os.path.join(wt, dest)), exist_ok=True)
        shutil.copy(demo, os.path.join(wt, dest))
        tgt = dict(os.environ, CARGO_TARGET_DIR=os.environ.get('SEED_TARGET', '/tmp/seed_target'))
        rc0, o0 = sh('cargo test --offline %s --test %s' % (extra, tname), cwd=wt, env=tgt)
        res['demo_passes_unchanged'] = rc0 == 0
        rc, o = sh('git apply %s' % patch, cwd=wt)
        res['applies'] = rc == 0
        rc1, o1 = sh('cargo test --offline %s --test %s' % (extra, tname), cwd=wt, env=tgt)
        res['demo_fails_changed'] = rc1 != 0 and ('panicked' in o1 or 'FAILED' in o1 or 'failed' in o1)
        os.remove(os.path.join(wt, dest))
        rc2, o2 = sh('cargo test --workspace --offline', cwd=wt, env=tgt)
        res['suite_passes_changed'] = rc2 == 0
        if rc2 != 0:
            res['suite_tail'] = o2[-800:]
    finally:
        sh('git -C /repo worktree remove --force %s' % wt)
    # run the checks against a scratch worktree with the patch applied (VERIF_REPO), evidence/replay redirected
    wt2 = tempfile.mkdtemp(prefix='seedrepo.', dir='/tmp')
    os.rmdir(wt2)
    sh('git -C /repo worktree add -q --detach %s HEAD' % wt2)
    res['checks'] = {}
    try:
        shutil.copy('/repo/Cargo.lock', os.path.join(wt2, 'Cargo.lock'))
        rc, o = sh('git apply %s' % patch, cwd=wt2)
        env = dict(os.environ, VERIF_REPO=wt2, VERIF_EVIDENCE_DIR='/tmp/seed_evidence.%d' % os.getpid(), VERIF_REPLAY_DIR='/tmp/seed_replay.%d' % os.getpid())
        for c in checks:
            rc, o = sh('./check %s' % c, cwd=os.path.dirname(os.path.dirname(os.path.abspath(__file__))), timeout=3600, env=env)
            v = [l for l in o.split('\n') if l.startswith('VIOLATION') or l.startswith('UNDECIDED') or l.startswith('OK ') or l.startswith('KNOWN')]
            fo = [l.strip() for l in o.split('\n') if l.strip().startswith('failed obligation')]
            res['checks'][c] = {'rc': rc, 'lines': v[:4], 'failed': fo[:8]}
    finally:
        sh('git -C /repo worktree remove --force %s' % wt2)
        shutil.rmtree('/tmp/seed_evidence.%d' % os.getpid(), ignore_errors=True)
        shutil.rmtree('/tmp/seed_replay.%d' % os.getpid(), ignore_errors=True)
    print(json.dumps(res))

main()
