"""Light-weight Rust source scanner used by the extractor and the Kani overlay.

No Rust parser is available offline, so this works on a *masked* copy of the text (comments,
string and char literals replaced by blanks of the same length) with brace matching.  It finds
modules, impls, traits, fns and loops and gives each fn a stable key

    <mod path>::<SelfType>[<Trait text>]::<fn name>      (impl of a trait)
    <mod path>::<SelfType>::<fn name>                     (inherent impl)
    <mod path>::<Trait>{trait}::<fn name>                 (declaration/default body in a trait)
    <mod path>::<fn name>                                 (free fn)

Anything it cannot find is reported by the caller as a lost anchor (UNDECIDED), never as a
violation.
"""
import re


def mask(s):
    """Blank out comments, strings and char literals, keeping length and newlines."""
    out = list(s)
    i, n = 0, len(s)

    def blank(a, b):
        for k in range(a, b):
            if out[k] != '\n':
                out[k] = ' '

    while i < n:
        c = s[i]
        if s.startswith('//', i):
            j = s.find('\n', i)
            j = n if j < 0 else j
            blank(i, j)
            i = j
        elif s.startswith('/*', i):
            depth, j = 1, i + 2
            while j < n and depth:
                if s.startswith('/*', j):
                    depth += 1; j += 2
                elif s.startswith('*/', j):
                    depth -= 1; j += 2
                else:
                    j += 1
            blank(i, j)
            i = j
        elif c == '"':
            j = i + 1
            while j < n and s[j] != '"':
                j += 2 if s[j] == '\\' else 1
            blank(i + 1, j)
            i = j + 1
        elif c == 'r' and re.match(r'r#*"', s[i:i + 8]) and (i == 0 or not (s[i - 1].isalnum() or s[i - 1] == '_')):
            m = re.match(r'r(#*)"', s[i:])
            close = '"' + m.group(1)
            j = s.find(close, i + len(m.group(0)))
            j = n if j < 0 else j
            blank(i + len(m.group(0)), j)
            i = j + len(close)
        elif c == "'":
            # char literal or lifetime
            m = re.match(r"'(\\.[^']*|[^'\\])'", s[i:])
            if m:
                blank(i + 1, i + len(m.group(0)) - 1)
                i += len(m.group(0))
            else:
                i += 1
        else:
            i += 1
    return ''.join(out)


def match_close(m, i, open_c='{', close_c='}'):
    """m masked text, i index of open_c; returns index of the matching close."""
    depth = 0
    n = len(m)
    while i < n:
        c = m[i]
        if c == open_c:
            depth += 1
        elif c == close_c:
            depth -= 1
            if depth == 0:
                return i
        i += 1
    raise ValueError('unbalanced %s at %d' % (open_c, i))


def skip_angle(m, i):
    """m[i] == '<': return index just after the matching '>' (ignores '->' and '=>')."""
    depth = 0
    n = len(m)
    while i < n:
        c = m[i]
        if c == '<':
            depth += 1
        elif c == '>' and m[i - 1] not in '-=':
            depth -= 1
            if depth == 0:
                return i + 1
        i += 1
    raise ValueError('unbalanced <')


def find_body_open(m, i):
    """From i (inside a header) find the first '{' or ';' at (), [] depth 0."""
    depth = 0
    n = len(m)
    while i < n:
        c = m[i]
        if c in '([':
            depth += 1
        elif c in ')]':
            depth -= 1
        elif depth == 0 and c in '{;':
            return i
        i += 1
    raise ValueError('no body')


KW = re.compile(r'\b(mod|impl|trait|fn|macro_rules)\b')


def squash(t):
    return re.sub(r'\s+', '', t)


def parse_impl_header(h):
    """h: text between 'impl' and '{'.  Returns (self_type_name, trait_text or None)."""
    h = h.strip()
    if h.startswith('<'):
        h = h[skip_angle(h, 0):]
    # drop where clause at depth 0
    depth = 0
    cut = len(h)
    for mm in re.finditer(r'[<>()\[\]]|\bwhere\b', h):
        t = mm.group(0)
        if t in '<([':
            depth += 1
        elif t in '>)]':
            if t == '>' and h[mm.start() - 1] in '-=':
                continue
            depth -= 1
        elif t == 'where' and depth == 0:
            cut = mm.start()
            break
    h = h[:cut].strip()
    # split on ' for ' at depth 0
    depth = 0
    trait = None
    ty = h
    for mm in re.finditer(r'[<>()\[\]]|\bfor\b', h):
        t = mm.group(0)
        if t in '<([':
            depth += 1
        elif t in '>)]':
            if t == '>' and h[mm.start() - 1] in '-=':
                continue
            depth -= 1
        elif t == 'for' and depth == 0:
            trait = squash(h[:mm.start()])
            ty = h[mm.end():].strip()
            break
    ty = ty.strip()
    ty_s = squash(ty)
    m2 = re.match(r"(&(?:'\w+)?(?:mut)?)?((?:\w+::)*)(\w+)", ty_s)
    name = (('&mut' if m2.group(1) and 'mut' in m2.group(1) else ('&' if m2.group(1) else '')) + m2.group(3)) if m2 else ty_s
    return name, trait


class Fn:
    def __init__(self):
        self.key = None
        self.name = None
        self.start = None       # index of 'fn'
        self.hdr_start = None   # index where attributes/visibility of the item begin (line start)
        self.open = None        # index of '{' (or ';' for declarations)
        self.close = None       # index of matching '}' (== open for declarations)
        self.has_body = True
        self.ctx = None         # 'impl' | 'trait' | 'mod'

    def __repr__(self):
        return 'Fn(%s)' % self.key


def scan_items(text, masked=None):
    """Returns (fns, mods, traits, impls).  mods/traits/impls: list of (key, open_idx, close_idx)."""
    m = masked if masked is not None else mask(text)
    fns, mods, traits, impls = [], [], [], []

    def walk(lo, hi, path, ctx, ctxname):
        i = lo
        while i < hi:
            mm = KW.search(m, i, hi)
            if not mm:
                return
            kw = mm.group(1)
            j = mm.end()
            if kw == 'macro_rules':
                # skip macro definition body entirely
                k = m.find('{', j)
                e = match_close(m, k)
                i = e + 1
                continue
            if kw == 'mod':
                m2 = re.compile(r'\s+(\w+)\s*([{;])').match(m, j)
                if not m2:
                    i = j
                    continue
                if m2.group(2) == ';':
                    i = m2.end()
                    continue
                o = m2.end() - 1
                c = match_close(m, o)
                p2 = path + [m2.group(1)]
                mods.append(('::'.join(p2), o, c))
                walk(o + 1, c, p2, 'mod', None)
                i = c + 1
                continue
            if kw == 'trait':
                m2 = re.compile(r'\s+(\w+)').match(m, j)
                if not m2:
                    i = j
                    continue
                o = find_body_open(m, m2.end())
                if m[o] == ';':
                    i = o + 1
                    continue
                c = match_close(m, o)
                key = '::'.join(path + [m2.group(1)])
                traits.append((key, o, c))
                walk(o + 1, c, path, 'trait', m2.group(1) + '{trait}')
                i = c + 1
                continue
            if kw == 'impl':
                # 'impl Trait' in argument/return position: only treat as item if followed by
                # a header ending in '{' before any ';' / ')' at depth 0 and we are at item level
                if ctx not in ('mod',):
                    i = j
                    continue
                # check that the previous non-space token ends an item or attribute
                k = mm.start() - 1
                while k >= lo and m[k] in ' \t\n':
                    k -= 1
                if k >= lo and m[k] not in '}];' and not re.search(r'\bunsafe$', m[max(lo, k - 6):k + 1]):
                    i = j
                    continue
                try:
                    o = find_body_open(m, j)
                except ValueError:
                    return
                if m[o] == ';':
                    i = o + 1
                    continue
                c = match_close(m, o)
                name, trait = parse_impl_header(text[j:o])
                cname = name + ('[' + trait + ']' if trait else '')
                impls.append(('::'.join(path + [cname]), o, c))
                walk(o + 1, c, path, 'impl', cname)
                i = c + 1
                continue
            if kw == 'fn':
                m2 = re.compile(r'\s+(\w+)').match(m, j)
                if not m2:
                    i = j
                    continue
                # skip generics
                k = m2.end()
                while k < hi and m[k] in ' \t\n':
                    k += 1
                if k < hi and m[k] == '<':
                    k = skip_angle(m, k)
                o = find_body_open(m, k)
                f = Fn()
                f.name = m2.group(1)
                f.start = mm.start()
                f.open = o
                f.ctx = ctx
                # header start: beginning of the line of the first attribute / visibility
                ls = text.rfind('\n', 0, f.start) + 1
                while True:
                    pl = text.rfind('\n', 0, max(ls - 1, 0)) + 1
                    prev = m[pl:ls].strip()
                    if ls > 0 and prev.startswith('#[') and pl < ls:
                        ls = pl
                    else:
                        break
                f.hdr_start = ls
                if m[o] == ';':
                    f.has_body = False
                    f.close = o
                else:
                    f.close = match_close(m, o)
                f.key = '::'.join(path + ([ctxname] if ctxname else []) + [f.name])
                fns.append(f)
                i = f.close + 1
                continue
        return

    walk(0, len(m), [], 'mod', None)
    return fns, mods, traits, impls


LOOP = re.compile(r'\b(loop|while|for)\b')


def find_loops(m, lo, hi):
    """Loops in m[lo:hi] in source order: list of (kind, kw_idx, open_brace_idx, close_idx)."""
    res = []
    i = lo
    while i < hi:
        mm = LOOP.search(m, i, hi)
        if not mm:
            break
        kw = mm.group(1)
        j = mm.end()
        if kw == 'for':
            # skip `for<'a>` HRTB and `impl X for Y`
            k = j
            while k < hi and m[k] in ' \t\n':
                k += 1
            if m[k] == '<':
                i = j
                continue
            # find ' in ' at depth 0
            depth = 0
            k = j
            found = None
            while k < hi:
                c = m[k]
                if c in '({[':
                    depth += 1
                elif c in ')}]':
                    depth -= 1
                    if depth < 0:
                        break
                elif depth == 0 and re.compile(r'\bin\b').match(m, k) and not (m[k - 1].isalnum() or m[k - 1] == '_'):
                    found = k + 2
                    break
                k += 1
            if found is None:
                i = j
                continue
            o = find_body_open(m, found)
        elif kw == 'while':
            o = find_body_open(m, j)
        else:
            k = j
            while k < hi and m[k] in ' \t\n':
                k += 1
            if m[k] != '{':
                i = j
                continue
            o = k
        if m[o] != '{':
            i = j
            continue
        c = match_close(m, o)
        res.append((kw, mm.start(), o, c))
        i = o + 1
    return res
