#!/usr/bin/env python3
"""Append the obligations discharged by the last run of ./check <ID> (evidence/<ID>.json) to expected/<ID>.txt without
dropping the entries that only a thorough run produces.  Only for use on the unchanged tree after a run that exited 0."""
import json, os, sys
V = os.path.dirname(os.path.dirname(os.path.abspath(__file__)))
for pid in sys.argv[1:]:
    ev = json.load(open(os.path.join(V, 'evidence', pid + '.json')))
    if ev.get('violations'):
        print(pid, 'has violations: not merged'); continue
    c = ev['coverage']
    ids = [o['id'] for o in c['obligation_list'] if o.get('ok')] + [o['id'] for o in c.get('bounded_standins_not_counted_as_proved', []) if o.get('ok')]
    p = os.path.join(V, 'expected', pid + '.txt')
    lines = open(p).read().split('\n') if os.path.exists(p) else []
    have = set(l.strip() for l in lines)
    new = [i for i in ids if i not in have]
    if new:
        open(p, 'w').write('\n'.join([l for l in lines if l.strip()] + new) + '\n')
    print(pid, 'expected +%d' % len(new), new[:6])
