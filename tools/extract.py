"""Mechanical extraction of /repo's crate into one Verus file (DESIGN.md section 2.1).

Every run re-reads /repo/src.  Nothing here contains driver code: the output is the text of the
repository with (a) modules inlined, (b) the stated drop/rewrite table applied, (c) contracts from
/verif/contracts/verus/*.vc spliced between signatures and bodies.  Each application of a rule is
counted and reported in the evidence.
"""
import os
import re
import sys
from collections import OrderedDict

sys.path.insert(0, os.path.dirname(__file__))
import rsscan  # noqa: E402


class Undecided(Exception):
    """Extraction problem (lost anchor, unsupported shape): the check exits 2, never alarms."""


class Line:
    __slots__ = ('text', 'origin')

    def __init__(self, text, origin):
        self.text = text
        self.origin = origin  # ('src', relfile, lineno) | ('gen', tag)


# ----------------------------------------------------------------------------- pass A: inlining

SKIP_MODS = {'_troubleshooting', '_mock'}


def cfg_eval(expr, cfg):
    """Evaluate the cfg predicates that occur in the crate; None = unknown predicate."""
    e = rsscan.squash(expr)
    table = {
        'test': False,
        'feature="batch"': cfg['batch'],
        'target_pointer_width="16"': cfg['ptr16'],
    }
    neg = False
    m = re.fullmatch(r'not\((.*)\)', e)
    if m:
        neg = True
        e = m.group(1)
    if e in table:
        return table[e] != neg
    return None


def strip_cfg_items(text, cfg, counts):
    """Remove items whose #[cfg(..)] is false for this configuration; drop the attribute if true."""
    while True:
        m = rsscan.mask(text)
        changed = False
        for mm in re.finditer(r'#\[cfg\(', m):
            a = mm.start()
            close = rsscan.match_close(m, mm.end() - 1, '(', ')')
            expr = text[mm.end():close]
            end_attr = m.index(']', close) + 1
            val = cfg_eval(expr, cfg)
            if val is None:
                continue
            if val:
                text = text[:a] + re.sub(r'[^\n]', ' ', text[a:end_attr]) + text[end_attr:]
                counts['D3:cfg-true'] = counts.get('D3:cfg-true', 0) + 1
                changed = True
                break
            # find the end of the item: skip further attributes, then to ';' or matching '}'
            k = end_attr
            while True:
                m2 = re.compile(r'\s*#\[').match(m, k)
                if not m2:
                    break
                k = rsscan.match_close(m, m2.end() - 1, '[', ']') + 1
            o = rsscan.find_body_open(m, k)
            e = o if m[o] == ';' else rsscan.match_close(m, o)
            blanked = re.sub(r'[^\n]', ' ', text[a:e + 1])
            text = text[:a] + blanked + text[e + 1:]
            key = 'D2:cfg(test)' if rsscan.squash(expr) == 'test' else 'D3:cfg-false'
            counts[key] = counts.get(key, 0) + 1
            changed = True
            break
        if not changed:
            return text


def load_file(src_root, rel, modpath, cfg, counts, out):
    path = os.path.join(src_root, rel)
    raw = open(path).read()
    text = strip_cfg_items(raw, cfg, counts)
    lines = text.split('\n')
    if lines and lines[-1] == '':
        lines.pop()
    base = os.path.dirname(rel)
    stem = os.path.splitext(os.path.basename(rel))[0]
    i = 0
    modre = re.compile(r'^(\s*)((?:pub(?:\([a-z]+\))?\s+)?)mod\s+(\w+)\s*;\s*$')
    pending_attr_macro_use = False
    for i, ln in enumerate(lines):
        lineno = i + 1
        s = ln.strip()
        # D1: docs and inner/lint attributes
        if s.startswith('//!') or s.startswith('///'):
            counts['D1:doc'] = counts.get('D1:doc', 0) + 1
            out.append(Line('', ('src', rel, lineno)))
            continue
        if re.match(r'#!\[.*\]$', s) or re.match(r'#\[(doc|must_use|warn|allow|non_exhaustive)\b.*\]$', s):
            counts['D1:attr'] = counts.get('D1:attr', 0) + 1
            out.append(Line('', ('src', rel, lineno)))
            continue
        mm = modre.match(ln)
        if mm:
            name = mm.group(3)
            if stem in ('lib', 'mod'):
                cands = [os.path.join(base, name + '.rs'), os.path.join(base, name, 'mod.rs')]
            else:
                cands = [os.path.join(base, stem, name + '.rs'), os.path.join(base, stem, name, 'mod.rs')]
            found = [c for c in cands if os.path.exists(os.path.join(src_root, c))]
            if not found:
                raise Undecided('module %s not found from %s' % (name, rel))
            if name in SKIP_MODS:
                counts['D2:mod ' + name] = 1
                out.append(Line('', ('src', rel, lineno)))
                continue
            top_ = (modpath + [name])[0]
            bu = '' if top_ == 'dcs' else (' broadcast use {crate::dcs::group_dcs_params, crate::vf::group_trace};' if top_ == 'interface'
                                          else ' broadcast use {crate::dcs::group_dcs_params, crate::vf::group_trace, crate::interface::lemma_enc_all_one};')
            out.append(Line('%s%smod %s { #[allow(unused_imports)] use vstd::prelude::*; #[allow(unused_imports)] use vstd::std_specs::iter::IteratorSpec; #[allow(unused_imports)] use crate::vf::*;%s' % (mm.group(1), mm.group(2), name, bu), ('src', rel, lineno)))
            load_file(src_root, found[0], modpath + [name], cfg, counts, out)
            out.append(Line('%s}' % mm.group(1), ('src', rel, lineno)))
            continue
        out.append(Line(ln, ('src', rel, lineno)))


def drop_inline_mod(lines, name, counts):
    """D2: remove `pub mod <name> { .. }` written inline (lib.rs's _mock)."""
    text = '\n'.join(l.text for l in lines)
    m = rsscan.mask(text)
    mm = re.search(r'(?:pub\s+)?mod\s+%s\s*\{' % re.escape(name), m)
    if not mm:
        return
    c = rsscan.match_close(m, mm.end() - 1)
    new = text[:mm.start()] + re.sub(r'[^\n]', ' ', text[mm.start():c + 1]) + text[c + 1:]
    for l, t in zip(lines, new.split('\n')):
        l.text = t
    counts['D2:mod ' + name] = 1


# ----------------------------------------------------------------- pass R: line-preserving rewrites

def rewrite_mut_self(text, counts):
    """R10: fn f(mut self, ..) { B }  ->  fn f(self, ..) { let mut this = self; B[self:=this] }"""
    pat = re.compile(r'fn \w+(?:<[^>]*>)?\(\s*mut self\b')
    out = ''
    i = 0
    while True:
        m = pat.search(text, i)
        if not m:
            out += text[i:]
            break
        masked = rsscan.mask(text)
        out += text[i:m.start()] + m.group(0).replace('mut self', 'self')
        b = rsscan.find_body_open(masked, masked.index('(', m.start()))
        e = rsscan.match_close(masked, b)
        body = re.sub(r'\bself\b', 'this', text[b + 1:e])
        out += text[m.end():b] + '{ let mut this = self;' + body + '}'
        i = e + 1
        counts['R10:mut-self'] = counts.get('R10:mut-self', 0) + 1
    return out


REGEX_RULES = [
    ('R4:const-slice-static', r"const (\w+): &\[", r"const \1: &'static ["),
    ('R1:map_err-annotated', r"map_err\(InitError::ResetPin\)", r"map_err(|e: RST::Error| -> (r: InitError<DI::Error, RST::Error>) ensures r == InitError::<DI::Error, RST::Error>::ResetPin(e) { InitError::ResetPin(e) })"),
    ('R1:map_err-annotated', r"map_err\(InitError::Interface\)", r"map_err(|e: DI::Error| -> (r: InitError<DI::Error, RST::Error>) ensures r == InitError::<DI::Error, RST::Error>::Interface(e) { InitError::Interface(e) })"),
    ('R1:map_err-into', r"\.map_err\(Into::into\)", r".map_err(|e: DI::Error| -> (r: crate::models::ModelInitError<DI::Error>) ensures r == crate::models::ModelInitError::<DI::Error>::Interface(e) { crate::models::ModelInitError::Interface(e) })"),
    ('R1:map_err-eta', r"map_err\(((?:\w+::)+\w+)\)", r"map_err(|e| \1(e))"),
    ('R18:repeat-map', r"\(0\.\.count\)\.map\(\|_\| pixel\)", r"crate::vf::repeat_n(count, pixel)"),
    ('R2:closure-wildcard', r"\|_\|", r"|_u|"),
    ('R15:try_into-unwrap', r"let chunk: &mut \[u8; N\] = chunk\.try_into\(\)\.unwrap\(\);", r"let chunk: &mut [u8; N] = crate::vf::slice_as_array_mut(chunk);"),
    ('R16:cmp-min', r"core::cmp::min\(", r"crate::vf::min_u32("),
    ('R27:filter-annotated', r"self\.draw_batch\(\n(\s*)item\.into_iter\(\)\n(\s*)\.filter\(\|pixel\| bounding_box\.contains\(pixel\.0\)\),\n(\s*)\)",
     r"{ let ghost vf_y0 = crate::vf::iter_yields(item); let vf_f =\n\1crate::vf::filter_lawful(crate::vf::into_iter(item),\n\2 |pixel: &Pixel<M::ColorFormat>| -> (keep: bool) ensures keep == crate::vf::rect_contains(bounding_box, pixel.0.x as int, pixel.0.y as int) { bounding_box.contains(pixel.0) }, Ghost(crate::vf::in_rect::<M::ColorFormat>(bounding_box))); let ghost vf_gf = vf_f; proof { vf_lemma_filtered_inb(vf_y0, bounding_box); assert(crate::vf::iter_yields(vf_gf) == vf_y0.filter(crate::vf::in_rect::<M::ColorFormat>(bounding_box))); assert(bounding_box == self.bbox()); assert(bounding_box.size.width as int == self.lsize().0 && bounding_box.size.height as int == self.lsize().1); assert(crate::vf::iter_lawful(vf_gf)); assert(self.wf()); crate::batch::lemma_db_pre(&*self, vf_gf); }\n\3let ghost vf_d0 = *self; let vf_r = self.draw_batch(vf_f); proof { crate::batch::lemma_db_post(&vf_d0, &*self, vf_gf, vf_r); } vf_r }"),
    ('R9:into_iter', r"\b(pixels|item_pixels|colors)\.into_iter\(\)", r"crate::vf::into_iter(\1)"),
    ('D6:reject-recursive', r"pub struct (RowIterator|BlockIterator)<C, (P|R)>", r"#[verifier::reject_recursive_types(C)] #[verifier::reject_recursive_types(\2)] pub struct \1<C, \2>"),
    ('D6:reject-recursive', r"pub struct (PixelRow|PixelBlock)<C>", r"#[verifier::reject_recursive_types(C)] pub struct \1<C>"),
    ('R20:hoist-map-call', r"di\.send_pixels\(crate::vf::into_iter\(pixels\)\.map\((rgb565_to_bytes|rgb666_to_bytes|rgb565_to_u16)\)\)", r"crate::interface::vf_send_mapped_\1(di, pixels)"),
    ('R22:let-normal-once', r"self\.set_pixels\(x, y, x, y, core::iter::once\(color\)\)", r"{ let vf_once = core::iter::once(color); let ghost vf_gonce = vf_once; let vf_r = self.set_pixels(x, y, x, y, vf_once); proof { assert(crate::vf::iter_lawful(vf_gonce)); assert(vf_gonce.remaining() == seq![color]); assert(crate::vf::iter_yields(vf_gonce) == vf_gonce.remaining()); assert(crate::vf::iter_yields(vf_gonce).len() == 1); assert(crate::vf::iter_yields(vf_gonce)[0] == color);  } vf_r }"),
    ('R23:nth-through-mut', r"nth_u32\(&mut (self\.iter|colors), ", r"vf_nth_u32_mut(&mut \1, "),
    ('R24:u32-to-usize', r"(max_count|n)\.try_into\(\)\.unwrap\(\)", r"crate::vf::u32_to_usize(\1)"),
    ('R25:let-normal-take', r"self\.set_pixels\(sx, sy, ex, ey, take_u32\(colors, count\)\)",
     r"{ let vf_t = take_u32(colors, count); let ghost vf_gt = vf_t; let vf_r = self.set_pixels(sx, sy, ex, ey, vf_t); proof { assert(crate::vf::iter_lawful(vf_gt)); assert(crate::vf::iter_yields(vf_gt) == vf_gt.remaining()); assert(vf_gt.remaining() == fc_colors(*area, cl, ys)); } vf_r }"),
    ('R25:let-normal-takeskip', r"self\.set_pixels\(\n(\s*)sx,\n\s*sy,\n\s*ex,\n\s*ey,\n\s*take_u32\(TakeSkip::new\(colors, take_per_row, skip_per_row\), count\),\n\s*\)",
     r"{ let ghost vf_c0 = colors.remaining();\n\1let vf_ts = TakeSkip::new(colors, take_per_row, skip_per_row); let ghost vf_gts = vf_ts;\n\1let vf_t = take_u32(vf_ts, count); let ghost vf_gt = vf_t;\n\1let vf_r = self.set_pixels(sx, sy, ex, ey, vf_t);\n\1proof { assert(vf_gts.remaining() == ts_seq(vf_c0, take_per_row as u32, take_per_row as u32, skip_per_row as u32)); assert(crate::vf::iter_lawful(vf_gt)); assert(crate::vf::iter_yields(vf_gt) == vf_gt.remaining()); assert(vf_gt.remaining() == fc_colors(*area, cl, ys)); }\n\1vf_r\n\1}"),
    ('R26:ref-eq', r"if &intersection == area \{", r"if intersection == *area {"),
    ('R5:sized', r"pub trait InterfacePixelFormat<Word> \{", r"pub trait InterfacePixelFormat<Word>: Sized {"),
    ('R11:to_be_bytes', r"&self\.(\w+)\.to_be_bytes\(\)", r"&crate::vf::u16_to_be_bytes(self.\1)"),
    ('R11:to_be_bytes', r"self\.(\w+)\.to_be_bytes\(\)", r"crate::vf::u16_to_be_bytes(self.\1)"),
    ('R3:to_u32-closure', r"let to_u32 = \|\(a, b\)\| \(u32::from\(a\), u32::from\(b\)\);",
     "let to_u32 = |p: (u16, u16)| -> (q: (u32, u32)) ensures q.0 == p.0, q.1 == p.1 { let (a, b) = p; (u32::from(a), u32::from(b)) };"),
    ('D4:external-derive', r"(#\[derive\([^)]*\)\])(\s*(?:#\[[^\]]*\]\s*)*pub (?:struct ModelOptions|enum SpiError|enum ParallelError)\b)", r"\1 #[verifier::external_derive]\2"),
    ('D5:NoResetPin', r"pub enum NoResetPin \{\}", "#[verifier::external] pub enum NoResetPin {}"),
    ('D5:NoResetPin', r"impl digital::OutputPin for NoResetPin", "#[verifier::external] impl digital::OutputPin for NoResetPin"),
    ('D5:NoResetPin', r"impl digital::ErrorType for NoResetPin", "#[verifier::external] impl digital::ErrorType for NoResetPin"),
]


def rewrite_derives(text, counts):
    """D4: keep only derives Verus supports (Clone, Copy, PartialEq, Eq, Default)."""
    keep = {'Clone', 'Copy', 'PartialEq', 'Eq', 'Default'}

    def repl(m):
        nxt = text[m.end():m.end() + 200]
        if re.match(r'\s*(?:#\[[^\]]*\]\s*)*pub enum (SpiError|ParallelError)\b', nxt):
            return m.group(0)   # kept whole (Debug is a trait bound of Interface::Error); made external_derive below
        items = [x.strip() for x in m.group(1).split(',') if x.strip()]
        kept = [x for x in items if x in keep]
        dropped = [x for x in items if x not in keep]
        if dropped:
            counts['D4:derive-dropped'] = counts.get('D4:derive-dropped', 0) + len(dropped)
        if not kept:
            return ' ' * 0 + '#[cfg(all())]'
        return '#[derive(%s)]' % ', '.join(kept)

    return re.sub(r'#\[derive\(([^)]*)\)\]', repl, text)


def rewrite_question_mark(text, counts, contracts):
    """R14: in builder.rs and models/*, where `?` converts the error type through a user `From` impl, statements
    `[let PAT =] EXPR?;` become Rust's documented desugaring
    `[let PAT =] match EXPR { Ok(v) => v, Err(e) => return Err(From::from(e)) };` (this Verus treats the conversion
    hidden inside `?` as opaque, the explicit call gets the `From` specification).  Line preserving."""
    m = rsscan.mask(text)
    fns_, mods, _, _ = rsscan.scan_items(text, m)
    ranges = [(o, c) for k, o, c in mods if k == 'builder' or k.startswith('models::')]
    # functions whose contract carries an `onerr` hook: every `?;` statement gets an explicit early-return arm
    hooks = []
    for f in fns_:
        c = contracts.get(f.key)
        if c is not None and c.onerr and f.has_body:
            hooks.append((f.open, f.close, ' '.join(x.strip() for x in c.onerr)))
    edits = []
    for mm in re.finditer(r'\?\s*;', m):
        q = mm.start()
        hook = [h for h in hooks if h[0] < q < h[1]]
        if not any(o < q < c for o, c in ranges) and not hook:
            continue
        # statement start: scan back to the previous ; { } at depth 0
        depth = 0
        i = q - 1
        while i >= 0:
            ch = m[i]
            if ch in ')]':
                depth += 1
            elif ch in '([':
                depth -= 1
            elif depth == 0 and ch in ';{}':
                break
            i -= 1
        st = i + 1
        while m[st] in ' \t\n':
            st += 1
        stmt = text[st:q]
        lm = re.match(r'let\s+[^=]+=\s*', m[st:q])
        es = st + (lm.end() if lm else 0)
        if re.match(r'(return|if|match|while|for|loop)\b', m[es:q]):
            continue
        ident = '.map_err(' in rsscan.squash(m[es:q])
        if ident and not hook:
            continue   # already converted to the function's error type: `?` is the identity conversion, which Verus handles
        edits.append((es, q, ident, hook[0][2] if hook else ''))
    for es, q, ident, hk in reversed(edits):
        conv = 'e__' if ident else 'core::convert::From::from(e__)'
        arm = ('{ %s return Err(%s) }' % (hk, conv)) if hk else ('return Err(%s)' % conv)
        text = text[:es] + 'match ' + text[es:q] + ' { Ok(v__) => v__, Err(e__) => ' + arm + ' }' + text[q + 1:]
        counts['R14:question-mark-desugared'] = counts.get('R14:question-mark-desugared', 0) + 1
    return text


def rewrite_impl_trait_args(text, counts):
    """R17: `name: impl IntoIterator<Item = T>` in argument position -> a named type parameter
    (`fn f<.., VfP: IntoIterator<Item = T>>(.. name: VfP ..)`).  Same meaning (callers here never use turbofish);
    this Verus generates ill-typed AIR for an anonymous impl-trait parameter mentioned in a trait method's contract."""
    m = rsscan.mask(text)
    fns, _, _, _ = rsscan.scan_items(text, m)
    edits = []
    for f in fns:
        sig = text[f.start:f.open]
        mm = re.search(r'(\w+): impl IntoIterator<Item = ([^>]*)>', sig)
        if not mm:
            continue
        item_ty = mm.group(2)
        if f.ctx == 'impl' and re.fullmatch(r'Self', item_ty.strip()):
            # inside an impl, spell `Self` as the implementing type (same type; this Verus does not resolve vstd's iterator
            # specifications through the `Self` alias)
            ctxname = f.key.split('::')[-2]
            item_ty = re.match(r'&?(?:mut)?(\w+)', ctxname).group(1)
            counts['R17:Self-spelled-out'] = counts.get('R17:Self-spelled-out', 0) + 1
        bound = 'VfP: IntoIterator<Item = %s>' % item_ty
        new = sig[:mm.start()] + '%s: VfP' % mm.group(1) + sig[mm.end():]
        g = re.match(r'fn\s+\w+\s*<', new)
        if g:
            # find the matching '>' of the generics list
            e = rsscan.skip_angle(new, g.end() - 1)
            inner = new[g.end():e - 1].rstrip()
            sep = '' if inner.endswith(',') or inner == '' else ','
            new = new[:e - 1] + sep + ' ' + bound + new[e - 1:]
        else:
            g2 = re.match(r'fn\s+\w+', new)
            new = new[:g2.end()] + '<' + bound + '>' + new[g2.end():]
        edits.append((f.start, f.open, new))
        counts['R17:impl-trait-arg-named'] = counts.get('R17:impl-trait-arg-named', 0) + 1
    for a, b, t in sorted(edits, reverse=True):
        text = text[:a] + t + text[b:]
    return text


TWINS = [
    # (impl header regex, replacement header, `type Item` line regex, fn signature regex, replacement signature)
    ('R19:BlockIterator::next-as-inherent',
     r"impl<C, R> Iterator for BlockIterator<C, R>", "impl<C, R> BlockIterator<C, R>",
     r"type Item = PixelBlock<C>;", r"fn next\(&mut self\) -> Option<Self::Item> \{", "fn vf_next(&mut self) -> Option<PixelBlock<C>> {"),
]


def rewrite_twins(text, counts):
    """R19: a trait method implementation cannot declare `requires` in Verus.  For `BlockIterator::next` (whose body
    needs caller-provided facts even to be free of arithmetic overflow) the body is verified as the inherent method
    `vf_next` (same text, header edited in place); contracts/verus/batch.vc re-adds `impl Iterator for BlockIterator`
    whose `next` is an external_body shell `{ self.vf_next() }` carrying the same contract in conditional form."""
    for name, h_re, h_new, item_re, sig_re, sig_new in TWINS:
        mh = re.search(h_re, text)
        if not mh:
            raise Undecided(name + ': impl header not found')
        text = text[:mh.start()] + h_new + text[mh.end():]
        mi = re.compile(item_re).search(text, mh.start())
        ms = re.compile(sig_re).search(text, mh.start())
        if not mi or not ms:
            raise Undecided(name + ': Item / fn next not found')
        text = text[:mi.start()] + ' ' * (mi.end() - mi.start()) + text[mi.end():]
        ms = re.compile(sig_re).search(text, mh.start())
        text = text[:ms.start()] + sig_new + text[ms.end():]
        counts[name] = 1
    return text


def rewrite_forloops(text, contracts, counts, body_lost=None):
    """R13: `for PAT in EXPR { B }`  ->  `{ let mut IT = EXPR'; loop { match IT.next() { Some(PAT) => { B } None => { break; } } } }`
    (Rust's documented desugaring of `for`; EXPR' is EXPR for an expression that already is an iterator, or
    crate::vf::into_iter(EXPR) for a generic `impl IntoIterator` value).  Applied only to the loops a contract names
    (`forloop <ordinal> <iterator name> [iter|into]`), so that ordinary `loop` invariants over `IT.remaining()` can be
    spliced; this Verus has no usable for-loop protocol for generic/prophetic iterators.  Line preserving."""
    want = {k: c.forloops for k, c in contracts.items() if c.forloops}
    names = {k: c.fornames for k, c in contracts.items() if c.fornames}
    if names:
        # R13': `for PAT in EXPR` -> `for PAT in NAME: EXPR` (Verus syntax naming the loop's ghost iterator; no semantic change)
        m0 = rsscan.mask(text)
        fns0, _, _, _ = rsscan.scan_items(text, m0)
        ed = []
        for f in fns0:
            if f.key not in names or not f.has_body:
                continue
            loops = rsscan.find_loops(m0, f.open + 1, f.close)
            bad_ = [ordn for ordn in names[f.key] if ordn < 1 or ordn > len(loops) or loops[ordn - 1][0] != 'for']
            if bad_:
                if body_lost is None:
                    raise Undecided('fn %s: loop %d is not a `for` loop (forname anchor lost)' % (f.key, bad_[0]))
                body_lost.append((f.key, 'loop %d is not a `for` loop (forname anchor lost)' % bad_[0]))
                continue
            for ordn, nm in names[f.key].items():
                kw, kwi, o, cl = loops[ordn - 1]
                mi = re.compile(r'\bin\b').search(m0, kwi + 3, o)
                ed.append((mi.end(), mi.end(), ' %s:' % nm))
                counts['R13b:for-ghost-iterator-named'] = counts.get('R13b:for-ghost-iterator-named', 0) + 1
        for a, b, t in sorted(ed, reverse=True):
            text = text[:a] + t + text[b:]
    if not want:
        return text
    m = rsscan.mask(text)
    fns, _, _, _ = rsscan.scan_items(text, m)
    edits = []
    for f in fns:
        if f.key not in want or not f.has_body:
            continue
        loops = rsscan.find_loops(m, f.open + 1, f.close)
        if body_lost is not None and any(k_ == f.key for k_, _ in body_lost):
            continue
        bad_ = [ordn for ordn in want[f.key] if ordn < 1 or ordn > len(loops) or loops[ordn - 1][0] != 'for']
        if bad_:
            if body_lost is None:
                raise Undecided('fn %s: loop %d is not a `for` loop (R13 anchor lost)' % (f.key, bad_[0]))
            body_lost.append((f.key, 'loop %d is not a `for` loop (R13 anchor lost)' % bad_[0]))
            continue
        for ordn, (itname, mode) in want[f.key].items():
            kw, kwi, o, cl = loops[ordn - 1]
            hdr = text[kwi + 3:o]
            mh = m[kwi + 3:o]
            # split PAT / EXPR at ' in ' at depth 0
            depth = 0
            pos = None
            for i, ch in enumerate(mh):
                if ch in '({[':
                    depth += 1
                elif ch in ')}]':
                    depth -= 1
                elif depth == 0 and re.match(r'\bin\b', mh[i:]) and not (mh[i - 1].isalnum() or mh[i - 1] == '_'):
                    pos = i
                    break
            if pos is None:
                raise Undecided('fn %s: cannot split for-loop header' % f.key)
            pat, expr = hdr[:pos], hdr[pos + 2:]
            e2 = expr.strip()
            lead = expr[:len(expr) - len(expr.lstrip())]
            trail = expr[len(expr.rstrip()):]
            init = ('crate::vf::into_iter(%s)' % e2) if mode == 'into' else (('crate::vf::array_into_iter(%s)' % e2) if mode == 'array' else e2)
            # mode `twin`: the iterator is a BlockIterator, whose `next` is verified as the inherent twin `vf_next` (R19)
            nxt = 'vf_next' if mode == 'twin' else 'next'
            new_hdr = '{ let mut %s = %s%s;%s loop { match %s.%s() { Some(%s) => {' % (itname, lead, init, trail, itname, nxt, pat.strip() + pat[len(pat.rstrip()):])
            if new_hdr.count('\n') != text[kwi:o + 1].count('\n'):
                # keep the line count: pad or fail
                diff = text[kwi:o + 1].count('\n') - new_hdr.count('\n')
                if diff < 0:
                    raise Undecided('fn %s: R13 changed the line count' % f.key)
                new_hdr += '\n' * diff
            edits.append((kwi, o + 1, new_hdr))
            edits.append((cl, cl + 1, '} None => { break; } } } }'))
            counts['R13:for-desugared'] = counts.get('R13:for-desugared', 0) + 1
    for a, b, t in sorted(edits, reverse=True):
        text = text[:a] + t + text[b:]
    return text


def apply_rewrites(lines, counts, extra_rules=(), contracts=None, cfg=None, body_lost=None):
    text = '\n'.join(l.text for l in lines)
    n0 = text.count('\n')
    text = rewrite_mut_self(text, counts)
    text = rewrite_derives(text, counts)
    for name, a, b in list(REGEX_RULES) + list(extra_rules):
        text, k = re.subn(a, b, text)
        if k:
            counts[name] = counts.get(name, 0) + k
    text = rewrite_impl_trait_args(text, counts)
    if cfg is None or cfg.get('batch', True):
        text = rewrite_twins(text, counts)
    text = rewrite_question_mark(text, counts, contracts or {})
    text = rewrite_forloops(text, contracts or {}, counts, body_lost)
    if text.count('\n') != n0:
        raise Undecided('internal: a rewrite changed the line count')
    for l, t in zip(lines, text.split('\n')):
        l.text = t


# ------------------------------------------------------------------------- contracts (.vc files)

class Contract:
    def __init__(self, key, src):
        self.key = key
        self.src = src          # file:line of the block
        self.ret = None
        self.attrs = []
        self.requires = []      # list of text lines
        self.ensures = []
        self.decreases = []
        self.loops = OrderedDict()   # ordinal -> list of text lines (invariant/decreases clauses)
        self.ats = []           # (regex, where 'before'|'after', text lines)
        self.body_prefix = []   # proof text inserted at the start of the body
        self.tail = None        # R21: (name, proof lines): the tail expression E becomes `let name = E; <proof> name`
        self.replace_sig = []   # (regex, repl) applied to the signature text only
        self.forloops = OrderedDict()  # ordinal -> (itname, mode)
        self.pre = OrderedDict()       # ordinal -> lines placed inside the desugared block before the loop
        self.post = OrderedDict()      # ordinal -> lines placed inside the desugared block after the loop
        self.inbody = OrderedDict()    # ordinal -> lines placed at the start of the body of desugared for-loop N
        self.onerr = []                # proof text placed in every early-return arm of `?`
        self.fornames = OrderedDict()  # ordinal -> ghost iterator name for a native `for` loop
        self.props = []


def cfg_holds(expr, cfg):
    """`when` conditions: any | batch | nobatch | ptr16 | noptr16 (space separated = conjunction)"""
    ok = True
    for w in expr.split():
        ok = ok and {'any': True, 'batch': cfg['batch'], 'nobatch': not cfg['batch'], 'ptr16': cfg['ptr16'], 'noptr16': not cfg['ptr16']}[w]
    return ok


def parse_vc(path, cfg=None):
    """Returns (fn_contracts: key->Contract, injections: list of (kind, key, text, src))."""
    fns = OrderedDict()
    inj = []
    cur = None
    sect = None
    buf = None
    mode = None
    active = True
    for ln_no, raw in enumerate(open(path).read().split('\n'), 1):
        ln = raw.rstrip()
        s = ln.strip()
        if mode is None and s.startswith('when '):
            active = cfg_holds(s[5:], cfg) if cfg is not None else True
            continue
        if mode == 'inject':
            if s == 'end':
                if active:
                    inj.append((cur[0], cur[1], '\n'.join(buf), '%s:%d' % (os.path.basename(path), cur[2])))
                mode = None
                cur = None
            else:
                buf.append(ln)
            continue
        if mode == 'fn':
            if s == 'end':
                mode = None
                cur = None
                sect = None
                continue
            m = re.match(r'^  ([\w@]+)(?:\s+(.*))?$', ln)
            if m and not ln.startswith('   '):
                kw, arg = m.group(1), (m.group(2) or '').strip()
                if kw == 'ret':
                    cur.ret = arg
                    sect = None
                elif kw == 'attr':
                    cur.attrs.append(arg)
                    sect = None
                elif kw == 'props':
                    cur.props = arg.split()
                    sect = None
                elif kw == 'sig':
                    a, b = arg.split(' => ')
                    cur.replace_sig.append((a.strip(), b.strip()))
                    sect = None
                elif kw in ('requires', 'ensures', 'decreases'):
                    sect = getattr(cur, kw)
                    if arg:
                        sect.append(arg)
                elif kw == 'loop':
                    sect = cur.loops.setdefault(int(arg), [])
                elif kw == 'forloop':
                    parts = arg.split()
                    cur.forloops[int(parts[0])] = (parts[1], parts[2] if len(parts) > 2 else 'iter')
                    sect = None
                elif kw == 'forname':
                    parts = arg.split()
                    cur.fornames[int(parts[0])] = parts[1]
                    sect = None
                elif kw == 'pre':
                    sect = cur.pre.setdefault(int(arg), [])
                elif kw == 'post':
                    sect = cur.post.setdefault(int(arg), [])
                elif kw == 'inbody':
                    sect = cur.inbody.setdefault(int(arg), [])
                elif kw == 'onerr':
                    sect = cur.onerr
                elif kw == 'body':
                    sect = cur.body_prefix
                elif kw == 'tail':
                    cur.tail = (arg.strip(), [])
                    sect = cur.tail[1]
                elif re.fullmatch(r'(before|after)(last|@\d+)?', kw):
                    lst = []
                    cur.ats.append((arg, kw, lst))
                    sect = lst
                else:
                    raise Undecided('%s:%d: unknown contract keyword %r' % (path, ln_no, kw))
                continue
            if s == '' or s.startswith('//'):
                if sect is not None and s.startswith('//'):
                    pass
                continue
            if sect is None:
                raise Undecided('%s:%d: text outside a section' % (path, ln_no))
            sect.append(ln)
            continue
        if s == '' or s.startswith('//'):
            continue
        m = re.match(r'^fn\s+(\S.*)$', ln)
        if m:
            key = m.group(1).strip()
            cur = Contract(key, '%s:%d' % (os.path.basename(path), ln_no))
            if active:
                if key in fns:
                    raise Undecided('%s:%d: duplicate contract for %s' % (path, ln_no, key))
                fns[key] = cur
            mode = 'fn'
            continue
        m = re.match(r'^in\s+(mod|trait|impl|crate)\s*(\S.*)?$', ln)
        if m:
            cur = (m.group(1), (m.group(2) or '').strip(), ln_no)
            buf = []
            mode = 'inject'
            continue
        raise Undecided('%s:%d: cannot parse %r' % (path, ln_no, ln))
    if mode is not None:
        raise Undecided('%s: unterminated block' % path)
    return fns, inj


def load_contracts(cdir, cfg=None):
    fns = OrderedDict()
    inj = []
    for f in sorted(os.listdir(cdir)):
        if f.endswith('.vc'):
            a, b = parse_vc(os.path.join(cdir, f), cfg)
            for k, v in a.items():
                if k in fns:
                    raise Undecided('duplicate contract for %s' % k)
                fns[k] = v
            inj += b
    return fns, inj


def load_externals(path, cfg=None):
    res = []
    if not os.path.exists(path):
        return res
    active = True
    for ln in open(path):
        ln = ln.rstrip('\n')
        if not ln.strip() or ln.strip().startswith('#'):
            continue
        if ln.startswith('when '):
            active = cfg_holds(ln[5:].partition('#')[0], cfg) if cfg is not None else True
            continue
        if not active:
            continue
        body, _, why = ln.partition('#')
        kind, key = body.split(None, 1)
        res.append((kind, key.strip(), why.strip()))
    return res


# ---------------------------------------------------------------------------------- pass S: splice

def _ret_is_impl(sig_text):
    """a function returning `impl Trait` needs its body for type inference: its body is kept when it is degraded"""
    i = sig_text.rfind('->')
    return i >= 0 and re.search(r'\bimpl\b', sig_text[i:]) is not None


def splice(lines, contracts, injections, counts, report, externals=(), canary=False, body_lost=None):
    text = '\n'.join(l.text for l in lines)
    m = rsscan.mask(text)
    fns, mods, traits, impls = rsscan.scan_items(text, m)
    bykey = {}
    for f in fns:
        bykey.setdefault(f.key, []).append(f)
    report['functions_found'] = sorted(bykey)
    # edits: (pos, text, tag) insertions only, plus (start,end,replacement) for signature rewrites
    ins = []   # (pos, order, text, tag)
    reps = []  # (start, end, text)
    lost = []
    for key, c in contracts.items():
        cands = bykey.get(key)
        if not cands:
            lost.append('fn ' + key)
            continue
        if len(cands) > 1:
            lost.append('fn %s (ambiguous: %d matches)' % (key, len(cands)))
            continue
        f = cands[0]
        tag = ('gen', 'contract %s (%s)' % (key, c.src))
        sig_start, sig_end = f.start, f.open
        sig = text[sig_start:sig_end]
        msig = m[sig_start:sig_end]
        # R6: name the result
        newsig = sig
        if c.ret:
            arrow = None
            depth = 0
            for k, ch in enumerate(msig):
                if ch in '([':
                    depth += 1
                elif ch in ')]':
                    depth -= 1
                elif depth == 0 and msig.startswith('->', k):
                    arrow = k
                    break
            if arrow is None:
                lost.append('fn %s: ret given but no return type' % key)
                continue
            wh = re.search(r'\bwhere\b', msig[arrow:])
            tend = arrow + wh.start() if wh else len(sig)
            ty = sig[arrow + 2:tend]
            lead = re.match(r'\s*', ty).group(0)
            trail = ty[len(ty.rstrip()):]
            newsig = sig[:arrow + 2] + lead + '(' + c.ret + ': ' + ty.strip() + ')' + trail + sig[tend:]
            counts['R6:named-result'] = counts.get('R6:named-result', 0) + 1
        for a, b in c.replace_sig:
            newsig2, k = re.subn(a, b, newsig)
            if k == 0:
                lost.append('fn %s: sig rule %r did not match' % (key, a))
            else:
                counts['Rsig:signature-rule'] = counts.get('Rsig:signature-rule', 0) + 1
            newsig = newsig2
        if newsig != sig:
            if newsig.count('\n') != sig.count('\n'):
                raise Undecided('signature rewrite changed line count in ' + key)
            reps.append((sig_start, sig_end, newsig))
        clauses = []
        if canary and f.has_body and c.ret and c.ensures and not any('external_body' in a for a in c.attrs) \
                and ('fnbody', key) not in [(k_, n_) for k_, n_, _ in externals]:
            # vacuity canary: with `flag ==> false` added to its postconditions (flag: a fresh uninterpreted boolean, one per
            # function, so that callers learn nothing useful from it) this function MUST fail to verify
            idx = len(report.setdefault('canaries', []))
            c.ensures = list(c.ensures) + ['crate::vfc::c%d() ==> false,' % idx]
            report['canaries'].append(key)
        for kw in ('requires', 'ensures', 'decreases'):
            body = getattr(c, kw)
            if body:
                clauses.append('    ' + kw)
                clauses += ['    ' + x for x in body]
        if clauses:
            ins.append((f.open, 0, '\n' + '\n'.join(clauses) + '\n', tag))
        if c.attrs:
            ins.append((f.hdr_start, 0, '\n'.join(c.attrs) + '\n', tag))
        # ---- body-level proof text.  If the function's body no longer has the statements/loops the proof text is anchored
        # on (or R13 could not find its `for` loop), the function is degraded for this run: it keeps its requires/ensures
        # (callers are still checked against them) but its body is not verified (external_body) and its obligation counts
        # as missing - the properties that select it become UNDECIDED, all others are unaffected.
        pre_lost = body_lost is not None and any(k_ == key for k_, _ in body_lost)
        ins_mark, lost_mark = len(ins), len(lost)
        if pre_lost:
            ins.append((f.hdr_start, -1, '#[verifier::external_body]\n', ('gen', 'degraded: proof anchor lost in ' + key)))
            if f.has_body and not _ret_is_impl(text[f.start:f.open]):
                # the body is not verified in this run: replace it (line preserving) so that rewrite wrappers that no
                # longer fit the changed text cannot break the compilation of the rest of the crate
                reps.append((f.open, f.close + 1, '{ unimplemented!()' + '\n' * text[f.open:f.close + 1].count('\n') + '}'))
            counts['contracts-spliced'] = counts.get('contracts-spliced', 0) + 1
            continue
        if c.body_prefix:
            if not f.has_body:
                lost.append('fn %s: body text but no body' % key)
            else:
                ins.append((f.open + 1, 1, '\n' + '\n'.join(c.body_prefix) + '\n', tag))
        if c.tail:
            # R21: the function's tail expression E (everything after the last top-level `;` of the body) is bound to a
            # name so that proof text can follow it: `E }` -> `let name = E; proof text; name }`
            if not f.has_body:
                lost.append('fn %s: tail but no body' % key)
            else:
                depth = 0
                last = f.open
                for i_ in range(f.open + 1, f.close):
                    ch = m[i_]
                    if ch in '([{':
                        depth += 1
                    elif ch in ')]}':
                        depth -= 1
                    elif ch == ';' and depth == 0:
                        last = i_
                st_ = last + 1
                while st_ < f.close and m[st_] in ' \t\n':
                    st_ += 1
                en_ = f.close
                while en_ > st_ and m[en_ - 1] in ' \t\n':
                    en_ -= 1
                d2 = 0
                simple = en_ > st_
                for i_ in range(st_, en_):
                    ch = m[i_]
                    if ch in '([{':
                        d2 += 1
                    elif ch in ')]}':
                        d2 -= 1
                        if d2 == 0 and ch == '}' and i_ + 1 < en_ and m[i_ + 1:en_].strip() and not re.match(r'\s*(else|\.|\?)', m[i_ + 1:en_]):
                            simple = False
                if not simple or re.match(r'(let|return|while|for|loop)\b', m[st_:en_]):
                    lost.append('fn %s: tail expression not found' % key)
                else:
                    ins.append((st_, 0, 'let %s = ' % c.tail[0], tag))
                    ins.append((en_, 1, ';\n' + '\n'.join(c.tail[1]) + '\n' + c.tail[0] + '\n', tag))
                    counts['R21:tail-bound'] = counts.get('R21:tail-bound', 0) + 1
        if c.loops or c.pre or c.post or c.inbody:
            if not f.has_body:
                lost.append('fn %s: loop clauses but no body' % key)
                continue
            loops = rsscan.find_loops(m, f.open + 1, f.close)
            for ordn, body in c.inbody.items():
                if ordn < 1 or ordn > len(loops):
                    lost.append('fn %s: loop %d not found for inbody' % (key, ordn))
                    continue
                mo_ = re.compile(r'Some\s*\([^=]*\)\s*=>\s*\{').search(m, loops[ordn - 1][2], loops[ordn - 1][3])
                if not mo_:
                    lost.append('fn %s: loop %d is not a desugared for-loop (inbody)' % (key, ordn))
                    continue
                ins.append((mo_.end(), 0, '\n' + '\n'.join(body) + '\n', tag))
            for ordn, body in c.loops.items():
                if ordn < 1 or ordn > len(loops):
                    lost.append('fn %s: loop %d not found (%d loops)' % (key, ordn, len(loops)))
                    continue
                kw, kwi, o, cl = loops[ordn - 1]
                ins.append((o, 0, '\n' + '\n'.join('    ' + x for x in body) + '\n', tag))
            for ordn, body in c.pre.items():
                if ordn < 1 or ordn > len(loops):
                    lost.append('fn %s: loop %d not found for pre' % (key, ordn))
                    continue
                ins.append((loops[ordn - 1][1], 0, '\n' + '\n'.join(body) + '\n', tag))
            for ordn, body in c.post.items():
                if ordn < 1 or ordn > len(loops):
                    lost.append('fn %s: loop %d not found for post' % (key, ordn))
                    continue
                ins.append((loops[ordn - 1][3] + 1, 0, '\n' + '\n'.join(body) + '\n', tag))
        for rx, where, body in c.ats:
            if not f.has_body:
                lost.append('fn %s: anchor but no body' % key)
                continue
            seg = text[f.open:f.close]
            hits = [x for x in re.finditer(rx, seg)]
            if where.endswith('last') and hits:
                hits = hits[-1:]
                where = where[:-4]
            mo = re.fullmatch(r'(before|after)@(\d+)', where)
            if mo:
                n_ = int(mo.group(2))
                hits = hits[n_ - 1:n_] if len(hits) >= n_ else []
                where = mo.group(1)
            if len(hits) != 1:
                lost.append('fn %s: anchor %r matched %d times' % (key, rx, len(hits)))
                continue
            pos = f.open + hits[0].start()
            if where == 'before':
                # start of the statement that contains the match (statements may span several lines)
                depth = 0
                i = pos - 1
                while i > f.open:
                    ch = m[i]
                    if ch in ')]':
                        depth += 1
                    elif ch in '([':
                        depth -= 1
                    elif depth <= 0 and ch in ';{}':
                        break
                    i -= 1
                st = i + 1
                while st < pos and m[st] in ' \t\n':
                    st += 1
                ls = text.rfind('\n', 0, st) + 1
                ins.append((ls, 0, '\n'.join(body) + '\n', tag))
            else:
                le = text.find('\n', f.open + hits[0].end())
                ins.append((le + 1, 0, '\n'.join(body) + '\n', tag))
        if body_lost is not None and len(lost) > lost_mark and f.has_body:
            why_ = '; '.join(lost[lost_mark:])
            del lost[lost_mark:]
            del ins[ins_mark:]
            body_lost.append((key, why_[:200]))
            ins.append((f.hdr_start, -1, '#[verifier::external_body]\n', ('gen', 'degraded: proof anchor lost in ' + key)))
            if not _ret_is_impl(text[f.start:f.open]):
                reps.append((f.open, f.close + 1, '{ unimplemented!()' + '\n' * text[f.open:f.close + 1].count('\n') + '}'))
        counts['contracts-spliced'] = counts.get('contracts-spliced', 0) + 1
    seen_ext = set()
    for kind, key, why in externals:
        if (kind, key) in seen_ext or ('fnbody', key) in seen_ext and kind == 'fnbody':
            continue
        seen_ext.add((kind, key))
        tag = ('gen', 'external %s %s' % (kind, key))
        if kind == 'mod':
            hit = [(k, o, c) for k, o, c in mods if k == key]
            if len(hit) != 1:
                lost.append('external mod ' + key)
                continue
            o = hit[0][1]
            ls_ = text.rfind('\n', 0, o) + 1
            ins.append((ls_, -1, '#[verifier::external]\n', tag))
        elif kind in ('fn', 'fnbody'):
            cands = bykey.get(key)
            if not cands or len(cands) != 1:
                lost.append('external fn ' + key)
                continue
            attr = '#[verifier::external]' if kind == 'fn' else '#[verifier::external_body]'
            ins.append((cands[0].hdr_start, -1, attr + '\n', tag))
            if kind == 'fnbody' and why.startswith('auto:') and cands[0].has_body and not any(r_[0] == cands[0].open for r_ in reps) \
                    and not _ret_is_impl(text[cands[0].start:cands[0].open]):
                f_ = cands[0]
                # drop proof text spliced into the body and replace the body (see above)
                ins[:] = [x for x in ins if not (f_.open < x[0] <= f_.close)]
                reps.append((f_.open, f_.close + 1, '{ unimplemented!()' + '\n' * text[f_.open:f_.close + 1].count('\n') + '}'))
        elif kind == 'impl':
            hit = [(k, o, c) for k, o, c in impls if k == key]
            if len(hit) != 1:
                lost.append('external impl %s (%d matches)' % (key, len(hit)))
                continue
            o = hit[0][1]
            # start of the impl header: search backwards for 'impl' at line start
            hs = text.rfind('\nimpl', 0, o)
            hs2 = text.rfind('\n    impl', 0, o)
            hs = max(hs, hs2) + 1
            ins.append((hs, -1, '#[verifier::external]\n', tag))
        counts['external:' + kind] = counts.get('external:' + kind, 0) + 1
    if canary:
        # canaries for exec functions that have no contract of their own (e.g. trait impl methods checked against the
        # trait-level contract): the same per-function flag clause
        ext_keys = set(k_ for kd_, k_, _ in externals if kd_ in ('fn', 'fnbody')) | set(k_ for k_, _ in (body_lost or []))
        ext_mods = [k_ for kd_, k_, _ in externals if kd_ == 'mod']
        for f in fns:
            if not f.has_body or f.key in contracts or f.key in ext_keys or len(bykey.get(f.key, [])) != 1:
                continue
            if any(f.key == mk or f.key.startswith(mk + '::') for mk in ext_mods) or f.key.startswith('vf::') or f.key.startswith('vfc::'):
                continue
            pre = m[max(0, f.start - 40):f.start]
            if re.search(r'\b(spec|proof)\s+$', pre) or re.search(r'\b(spec|proof)\s*(\([a-z]*\))?\s+$', pre):
                continue
            hdr_txt = m[f.hdr_start:f.start]
            if 'verifier::external' in text[f.hdr_start:f.start]:
                continue
            sigtxt = m[f.start:f.open]
            if re.search(r'\b(requires|ensures)\b', sigtxt):
                continue
            idx = len(report.setdefault('canaries', []))
            report['canaries'].append(f.key)
            ins.append((f.open, 0, '\n    ensures crate::vfc::c%d() ==> false,\n' % idx, ('gen', 'canary ' + f.key)))
    modmap = {k: (o, c) for k, o, c in mods}
    traitmap = {k: (o, c) for k, o, c in traits}
    implmap = {k: (o, c) for k, o, c in impls}
    for kind, key, body, src in injections:
        tag = ('gen', 'inject %s %s (%s)' % (kind, key, src))
        if kind == 'crate':
            ins.append((len(text), 0, '\n' + body + '\n', tag))
            continue
        mp = {'mod': modmap, 'trait': traitmap, 'impl': implmap}[kind]
        if key not in mp:
            lost.append('%s %s' % (kind, key))
            continue
        o, c = mp[key]
        if kind == 'mod':
            ins.append((c, 0, '\n' + body + '\n', tag))
        else:
            ins.append((o + 1, 0, '\n' + body + '\n', tag))
    if lost:
        raise Undecided('lost anchors: ' + '; '.join(lost))
    # apply: work on a char-level list of (pos) edits; build new Line list
    # convert positions to (line, col)
    line_starts = [0]
    for i, ch in enumerate(text):
        if ch == '\n':
            line_starts.append(i + 1)
    import bisect

    def lc(pos):
        li = bisect.bisect_right(line_starts, pos) - 1
        return li, pos - line_starts[li]

    # apply signature replacements first (line preserving), adjusting insertion positions
    reps.sort()
    shift_points = []
    newtext = text
    for s, e, t in reversed(reps):
        newtext = newtext[:s] + t + newtext[e:]
    # position shift function
    def shifted(pos):
        d = 0
        for s, e, t in reps:
            if pos >= e:
                d += len(t) - (e - s)
            elif pos > s:
                raise Undecided('internal: insertion inside a rewritten signature')
        return pos + d
    ins2 = sorted(((shifted(p), o, t, tag) for p, o, t, tag in ins), key=lambda x: (x[0], x[1]))
    # build output lines
    out = []
    new_lines = newtext.split('\n')
    ls = [0]
    for i, ch in enumerate(newtext):
        if ch == '\n':
            ls.append(i + 1)
    by_line = {}
    for p, o, t, tag in ins2:
        li = bisect.bisect_right(ls, p) - 1
        by_line.setdefault(li, []).append((p - ls[li], o, t, tag))
    for li, lt in enumerate(new_lines):
        origin = lines[li].origin if li < len(lines) else ('gen', 'tail')
        if li not in by_line:
            out.append(Line(lt, origin))
            continue
        col = 0
        cur = ''
        for c0, o, t, tag in sorted(by_line[li], key=lambda x: (x[0], x[1])):
            cur += lt[col:c0]
            col = c0
            parts = t.split('\n')
            # first part continues the current line
            cur += parts[0]
            if len(parts) > 1:
                out.append(Line(cur, origin))
                for ptxt in parts[1:-1]:
                    out.append(Line(ptxt, tag))
                cur = parts[-1]
        cur += lt[col:]
        out.append(Line(cur, origin))
    return out


# -------------------------------------------------------------------------------------- top level

def macro_wrap(lines, counts):
    """R8': wrap the transcriber of dcs_basic_command! in verus!{} so its output is verified."""
    text = '\n'.join(l.text for l in lines)
    a = 'pub struct $instr_name;'
    if a in text and 'macro_rules! dcs_basic_command' in text:
        text = text.replace('        pub struct $instr_name;', '        ::vstd::prelude::verus!{ pub struct $instr_name;', 1)
        text = text.replace('        impl DcsCommand for $instr_name {',
                            '        impl DcsCommand for $instr_name { open spec fn opcode(&self) -> u8 { $instr } open spec fn params(&self) -> Seq<u8> { Seq::empty() } proof fn lemma_params_len(&self) {}', 1)
        # close: the transcriber ends with "        }\n    };\n}" after fill_params_buf
        idx = text.index('macro_rules! dcs_basic_command')
        end = text.index('\n    };', idx)
        text = text[:end] + ' }' + text[end:]
        counts['R8:dcs_basic_command-in-verus'] = 1
        for l, t in zip(lines, text.split('\n')):
            l.text = t


GHOST_FIELDS = [
    # (struct header regex, field to add right after the header, constructor literal regex (first fields; further fields that a
    #  change to /repo adds are kept), what to append to the literal)
    ('G1:SpiInterface.ghost_trace', r"pub struct SpiInterface<'a, SPI, DC> \{",
     " pub ghost_trace: Ghost<Seq<crate::vf::Ev<u8>>>,", r"Self \{\s*spi,\s*dc,\s*buffer\b([^{}]*)\}"),
    ('G1:ParallelInterface.ghost_trace', r"pub struct ParallelInterface<BUS, DC, WR> \{",
     " pub ghost_trace: Ghost<Seq<crate::vf::Ev<BUS::Word>>>,", r"Self \{\s*bus,\s*dc,\s*wr\b([^{}]*)\}"),
]


def ghost_fields(lines, counts):
    """G1: ghost instrumentation (erased at compile time, cannot influence executable code): the two built-in transports
    get a `ghost_trace` field recording what crossed the Interface boundary; their constructors initialise it empty."""
    text = '\n'.join(l.text for l in lines)
    for name, hdr, add, ctor in GHOST_FIELDS:
        mh = re.search(hdr, text)
        if not mh:
            raise Undecided('%s: struct not found' % name)
        text = text[:mh.end()] + add + text[mh.end():]
        ms = list(re.finditer(ctor, text))
        if len(ms) != 1:
            raise Undecided('%s: constructor literal matched %d times' % (name, len(ms)))
        m = ms[0]
        lit = m.group(0)
        body = lit[:-1].rstrip()
        sep = '' if body.endswith(',') else ','
        lit2 = body + sep + ' ghost_trace: Ghost(Seq::empty()) ' + lit[len(lit[:-1].rstrip()):]
        text = text[:m.start()] + lit2 + text[m.end():]
        counts[name] = 1
    # G1b: the ghost field's type mentions BUS::Word, so the struct gets the bound every impl already has
    text, k = re.subn(r"pub struct ParallelInterface<BUS, DC, WR> \{", "pub struct ParallelInterface<BUS: OutputBus, DC, WR> {", text)
    if k != 1:
        raise Undecided('G1b: ParallelInterface header')
    counts['G1b:ParallelInterface-bound'] = 1
    for l, t in zip(lines, text.split('\n')):
        l.text = t


def macro_external(lines, counts):
    """R8: the items generated by generic_bus! are marked external (Verus' front end panics on them; the bus
    `set_value` is proved by Kani, Verus sees the `OutputBus` trait contract)."""
    text = '\n'.join(l.text for l in lines)
    if 'macro_rules! generic_bus' not in text:
        return
    i = text.index('macro_rules! generic_bus')
    j = text.index('generic_bus! {', i)
    m = text[i:j]
    m2 = m
    n = 0
    for a in ('        pub struct $GenericxBitBus', '        impl<$($PX, )*> $GenericxBitBus', '        impl<$($PX, )* E> OutputBus',
              '        impl<$($PX, )*> From<'):
        if a in m2:
            m2 = m2.replace(a, '        #[verifier::external] ' + a.strip(), 1)
            n += 1
    if n != 4:
        raise Undecided('generic_bus! macro changed shape (R8 anchors: %d of 4)' % n)
    # the OutputBus trait carries a ghost log `sets`; the (external, unverified) macro impls get an uninterpreted one
    a = '            fn set_value(&mut self, value: Self::Word) -> Result<(), Self::Error> {'
    if a not in m2:
        raise Undecided('generic_bus! macro changed shape (set_value)')
    m2 = m2.replace(a, '            ::vstd::prelude::verus!{ uninterp spec fn sets(&self) -> Seq<BusSet<Self::Word>>; }\n' + a, 1).replace('\n' + a, ' ' + a.strip(), 1) if False else m2.replace(a, '            #[verifier::spec] fn sets(&self) -> ::vstd::seq::Seq<BusSet<Self::Word>> { ::core::unimplemented!() } ' + a.strip(), 1)
    text = text[:i] + m2 + text[j:]
    counts['R8:generic_bus-output-external'] = n
    for l, t in zip(lines, text.split('\n')):
        l.text = t


COMPLETED_STRUCTS = ['PixelRow', 'PixelBlock', 'Orientation', 'MemoryMapping']


def _match_brace(text, i):
    """index of the brace matching text[i] == '{'"""
    d = 0
    for j in range(i, len(text)):
        if text[j] == '{':
            d += 1
        elif text[j] == '}':
            d -= 1
            if d == 0:
                return j
    return -1


def complete_spec_literals(out, counts):
    """G2: struct literals of /repo's own structs inside the injected specification text name the fields the struct has on
    the unchanged tree.  If a change to /repo ADDS a field, the literal is completed with `field: arbitrary()` (an unknown
    value), so that the specification still type-checks and the functions that build such values are judged against it
    instead of the whole crate leaving the verifier's reach.  Literals that are already complete (all of /repo's own) are
    left alone; nothing is done on the unchanged tree (count 0)."""
    text = '\n'.join(l.text for l in out)
    n_done = 0
    for name in COMPLETED_STRUCTS:
        md = re.search(r'\bstruct %s\b[^{;]*\{' % name, text)
        if not md:
            continue
        e = _match_brace(text, md.end() - 1)
        body = text[md.end():e]
        fields = re.findall(r'(?:^|[,{\n])\s*(?:#\[[^\]]*\]\s*)*(?:pub(?:\([^)]*\))?\s+)?(\w+)\s*:', body)
        pos = 0
        while True:
            m = re.compile(r'\b%s\s*(?:::<[^{}]*?>)?\s*\{' % name).search(text, pos)
            if not m:
                break
            pos = m.end()
            before = text[:m.start()].rstrip()
            if re.search(r'\b(struct|impl|for|enum|trait)$', before) or (md.start() <= m.start() < e):
                continue
            j = _match_brace(text, m.end() - 1)
            if j < 0:
                continue
            lit = text[m.end():j]
            if 'fn ' in lit or ';' in lit or '..' in lit:
                continue
            # field names at depth 0 of the literal
            depth = 0
            flat = ''
            for ch in lit:
                if ch in '([{':
                    depth += 1
                elif ch in ')]}':
                    depth -= 1
                flat += ch if depth == 0 else ' '
            have = set(re.findall(r'(?:^|,)\s*(\w+)\s*(?=:(?!:)|,|$)', flat))
            missing = [f for f in fields if f not in have]
            if not missing or not have:
                continue
            add = ''.join(', %s: vstd::pervasive::arbitrary()' % f for f in missing)
            stripped = lit.rstrip()
            if stripped.endswith(','):
                add = add[1:] + ','
            ins_at = m.end() + len(stripped)
            text = text[:ins_at] + add + text[ins_at:]
            pos = ins_at + len(add)
            e += len(add) if ins_at < e else 0
            n_done += 1
    if n_done:
        counts['G2:spec-literal-completed'] = n_done
        for l, tt in zip(out, text.split('\n')):
            l.text = tt


def extract(repo, verif, cfg, extra_external=(), canary=False):
    """Returns (file text, line origins list, counts, report)."""
    counts = OrderedDict()
    report = {}
    src_root = os.path.join(repo, 'src')
    lines = []
    load_file(src_root, 'lib.rs', [], cfg, counts, lines)
    drop_inline_mod(lines, '_mock', counts)
    contracts, injections = load_contracts(os.path.join(verif, 'contracts', 'verus'), cfg)
    body_lost = []
    apply_rewrites(lines, counts, contracts=contracts, cfg=cfg, body_lost=body_lost)
    macro_wrap(lines, counts)
    macro_external(lines, counts)
    ghost_fields(lines, counts)
    externals = load_externals(os.path.join(verif, 'contracts', 'verus', 'externals.txt'), cfg)
    externals = list(externals) + list(extra_external)
    report['externals'] = externals
    body = splice(lines, contracts, injections, counts, report, externals, canary=canary, body_lost=body_lost)
    report['body_lost'] = list(body_lost)
    prelude = open(os.path.join(verif, 'contracts', 'prelude.rs')).read().split('\n')
    head = ['#![allow(unused_imports, dead_code, unused_variables, unused_mut, unused_assignments, unused_parens, non_snake_case)]',
            'use vstd::prelude::*;', 'verus! {', 'global size_of usize == 8;', '#[allow(unused_imports)] use crate::vf::*;', '#[allow(unused_imports)] use vstd::std_specs::iter::IteratorSpec;', 'broadcast use {crate::dcs::group_dcs_params, crate::vf::group_trace, crate::interface::lemma_enc_all_one};']
    out = [Line(t, ('gen', 'header')) for t in head]
    out += [Line(t, ('gen', 'prelude.rs:%d' % (i + 1))) for i, t in enumerate(prelude)]
    out += body
    if canary:
        out += [Line('pub mod vfc { use vstd::prelude::*; %s }' % ' '.join('pub uninterp spec fn c%d() -> bool;' % i for i in range(len(report.get('canaries', [])))), ('gen', 'canary flags'))]
    out += [Line('} // verus!', ('gen', 'footer'))]
    complete_spec_literals(out, counts)
    report['contracts'] = {k: {'src': c.src, 'props': c.props} for k, c in contracts.items()}
    return out, counts, report


if __name__ == '__main__':
    import json
    cfg = {'batch': True, 'ptr16': False}
    if len(sys.argv) > 2:
        for a in sys.argv[2:]:
            if a == 'nobatch':
                cfg['batch'] = False
            if a == 'ptr16':
                cfg['ptr16'] = True
    out, counts, report = extract('/repo', '/verif', cfg)
    open(sys.argv[1], 'w').write('\n'.join(l.text for l in out) + '\n')
    print(json.dumps(counts, indent=1))
